#!/bin/sh
# soak: every check under several VERIF_SEED values (quick tier); prints one line per run
cd "$(dirname "$0")/.."
for s in ${SEEDS:-1 2 3 4 5 6 7 8}; do
  for p in C01 C03 C05 C06 C07 C08 C09 C10 C13; do
    out=$(VERIF_SEED=$s ./check $p --no-evidence 2>&1)
    rc=$?
    echo "seed=$s $p rc=$rc $(echo "$out" | grep -v KNOWN | tail -1)"
    if [ $rc -ne 0 ]; then echo "$out" | grep -B1 "VIOLATION\|HARNESS" | head -12; fi
  done
done
