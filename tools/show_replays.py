#!/usr/bin/env python3
import json, glob, sys, os
pat = sys.argv[1] if len(sys.argv) > 1 else '*'
seen = {}
for f in sorted(glob.glob('/verif/replays/%s.json' % pat), key=os.path.getmtime):
    r = json.load(open(f))
    k = (r['check'], tuple(o[0] for o in r['ops']))
    seen.setdefault(k, []).append((f, r))
for k, lst in sorted(seen.items()):
    f, r = lst[0]
    print('%s x%d %s' % (k[0], len(lst), os.path.basename(f)))
    print('   ', (r['message'] or '')[:400])
    print('   ', json.dumps(r['ops']), 'source=%s' % r['knobs'].get('source'))
