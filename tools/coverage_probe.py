#!/usr/bin/env python3
"""Reach probe: which functions of the PyTOUGH modules the machines never enter.

Runs n random runs of each machine in-process under sys.setprofile (call events only, cheap) and
prints, per repo module, the functions that were never called.  A development aid for finding
blind spots of the op alphabets; not part of any check.
Usage: /venv/bin/python tools/coverage_probe.py [n] [props...]"""
import ast
import collections
import os
import sys

VERIF = os.path.dirname(os.path.dirname(os.path.abspath(__file__)))
REPO = os.environ.get('VERIF_REPO', '/repo')
sys.path[:0] = [REPO, VERIF]
import warnings
warnings.simplefilter('ignore')


def main():
    n = int(sys.argv[1]) if len(sys.argv) > 1 else 300
    props = sys.argv[2:] or ['C01', 'C03', 'C05', 'C06', 'C07', 'C08', 'C09', 'C10', 'C13']
    out = sys.stdout
    sys.stdout = open(os.devnull, 'w')
    from sim import seeds, engine, registry
    called = collections.Counter()
    repo = os.path.realpath(REPO) + os.sep

    def prof(frame, event, arg):
        if event == 'call':
            fn = frame.f_code.co_filename
            if fn.startswith(repo):
                called[(os.path.basename(fn), frame.f_code.co_name, frame.f_code.co_firstlineno)] += 1

    for p in props:
        cls = registry.machine_for(p)
        sys.setprofile(prof)
        try:
            for i in range(n):
                seed = seeds.run_seed(12345, p, i)
                knobs = cls.knobs(seeds.stream(seed, 'knob'), 'quick')
                ops = cls.generate(seeds.stream(seed, 'gen'), knobs)
                engine.execute(cls, seed, knobs, ops)
        finally:
            sys.setprofile(None)
    sys.stdout = out
    for mod in ('fixed_format_file.py', 't2incons.py', 't2listing.py', 't2data.py', 't2grids.py',
                'mulgrids.py'):
        tree = ast.parse(open(os.path.join(REPO, mod)).read())
        never = []
        total = 0
        for node in ast.walk(tree):
            if isinstance(node, (ast.FunctionDef,)):
                total += 1
                if not any(k[0] == mod and k[1] == node.name for k in called):
                    never.append((node.lineno, node.name))
        print('%s: %d of %d functions never entered' % (mod, len(never), total))
        print('   ' + ', '.join('%s:%d' % (nm, ln) for ln, nm in sorted(never)))


if __name__ == '__main__':
    main()
