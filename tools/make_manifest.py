#!/usr/bin/env python3
"""Writes /verif/MANIFEST.json from the tables below (kept in one place so it stays valid)."""
import json
import os

VERIF = os.path.dirname(os.path.dirname(os.path.abspath(__file__)))

CLAIMED = {
    'C01': dict(machine='store (t2data writer + SimFS + fresh reader)', ref='3 C01',
                text='Seeded search over write/read/cycle/foreign-writer/crash histories on a simulated '
                     'project directory: every acknowledged write must read back (fresh object) equal to '
                     'the snapshot taken at write time to the digits each field carries, and W(R(W)) must '
                     'reach a byte-wise fixpoint; faults (ENOSPC, EIO, EMFILE, EACCES, crash, buffer size) '
                     'shape the history; every written file is also scanned independently (record counts '
                     'per section), Fortran-style re-emissions and the shipped files are read, also into '
                     're-used objects; a write (failed or not) must leave the in-memory model as it '
                     'was, an op must change one object only. Two classes of extra-precision-subset '
                     'defects are recorded as known findings. '
                     'Exploration: a clean batch is evidence, not proof.'),
    'C03': dict(machine='store (mulgrid writer + SimFS + fresh reader)', ref='3 C03',
                text='Seeded search over geometry build/edit/write/read/cycle/crash histories under the '
                     'seeded object-hash order; read-back equals the snapshot to the two decimals of the '
                     'format, name lists identical, re-write byte-identical; an independent column scan '
                     'of each written file (feet / metres), a from-scratch Fortran-style writer, reads '
                     'into re-used objects and with a block_order argument, faults in every write and '
                     'read; a write leaves the in-memory geometry as it was. Exploration.'),
    'C05': dict(machine='listing (t2listing reader over SimFS images)', ref='3 C05',
                text='Seeded stored-number rewrites, truncations and skip-table configurations of the 37 '
                     'shipped listing images delivered to the unmodified streaming reader through the '
                     'storage seam; every cell is compared with an independent tokeniser / the injected '
                     'numbers; result sets are reached by equivalent ways of positioning, in seeded '
                     'orders, with transient read errors inside the positioning, while second readers '
                     '(other simulators, the same file), get_difference() and table arithmetic happen '
                     'in between; rows by name / number and tables as attributes lead to the same '
                     'numbers. Exploration.'),
    'C06': dict(machine='listing', ref='3 C06',
                text='Seeded navigation+history() histories on long-lived readers: history() equals '
                     'stepping with a second reader, terminates within an I/O step budget (bounded '
                     'liveness), leaves the cursor state unchanged; short-output values are compared '
                     'with an independent reading; the file may be replaced under the open reader; '
                     'second readers are asked for the same selection first. Exploration.'),
    'C07': dict(machine='listing', ref='3 C07',
                text='Seeded navigation histories on one long-lived reader over full and truncated '
                     'and value-perturbed images, with transient read errors inside actions; state after '
                     'every op equals a fresh reader positioned at that index (also through rows by '
                     'name and table attributes), refused actions change nothing, second readers of '
                     'other simulators and of the same file live alongside; plus a deterministic '
                     'sweep of all action sequences up to length 2-3 on every multi-set listing. '
                     'Exploration.'),
    'C08': dict(machine='edit (t2grid under edit histories)', ref='3 C08',
                text='Seeded edit histories (incl. persist/restart through SimFS) against a reference '
                     'multigraph model; structural invariants I1-I4 and model equality I5 after every '
                     'op, refused operations (rename, reorder, embed, MINC) must change nothing, '
                     'under a per-block PYTHONHASHSEED (string-set iteration order); plus a '
                     'deterministic sweep of all op sequences up to length 2-3 over a 4-name universe. '
                     'Exploration.'),
    'C09': dict(machine='edit (t2grid reorder/rename/MINC/embed histories)', ref='3 C09',
                text='Same machine with the physical oracle: per-block volume/rock/centre and per-pair '
                     'area, direction, own-distance map and oriented gravity cosine are compared with the '
                     'reference model after every reorder/rename/persist (also re-read into the same '
                     'object); MINC and embed conservation; I1-I4 as in C08. '
                     'Exploration.'),
    'C10': dict(machine='edit (mulgrid under edit histories)', ref='3 C10',
                text='Seeded edit histories on geometries under the seeded object-hash order (the only '
                     'scheduler in this code base); back-reference, lookup, orientation and name-list '
                     'invariants J1-J7 after every op, refused additions / renames change nothing, '
                     'optional persist/restart and round trip after '
                     'every high-level op; plus a deterministic sweep of all sequences up to length 2 '
                     'of column/layer edits with every column subset on five small meshes. '
                     'Exploration.'),
    'C13': dict(machine='store (t2incon writer + SimFS + fresh reader)', ref='3 C13',
                text='Seeded search over build/edit/write/read/cycle/foreign-writer/crash histories on a '
                     'simulated directory; acknowledged writes read back equal to 13 decimals, re-write '
                     'byte-identical, shipped and Fortran-style files read as an independent column '
                     'parser reads them; edits are checked against a plain list model; a write '
                     '(failed or not) leaves the set as it was. Exploration.'),
}

NOT_APPLICABLE = {
    'C02': 'write_values_to_string / parse_string are pure string functions of (format table, values); no file, state, iteration order or fault enters, so there is nothing for a simulator to schedule or inject (DESIGN 4).',
    'C04': 'fromgeo is a pure function of an immutable geometry; volumes, areas and distances have no history, storage or order dependence (DESIGN 4).',
    'C11': 'area/volume conservation and tiling are properties of the input mesh and region; set order changes only the names of new columns, never their polygons. The structural side is covered under C10 (DESIGN 4).',
    'C12': 'point/line location are read-only queries; set order changes the search path, not the answer, for the points the property quantifies over (DESIGN 4).',
    'C14': 'IAPWS-97 routines are pure numerical functions of (T, p); no schedule, clock, I/O or fault (DESIGN 4).',
    'C15': 'IFC-67 routines are pure numerical functions; no schedule, clock, I/O or fault (DESIGN 4).',
    'C16': 'fortran_float / fortran_int are pure functions of a string; "no text raises" is an input-space claim (DESIGN 4).',
    'C17': 'naming functions and constructors are pure functions of (convention, counts, character set) (DESIGN 4).',
    'C18': 'rectgeo is a function of one grid; the only order dependence selects among candidates that are then filtered deterministically; the file clause is C01 (DESIGN 4).',
    'C19': 'block/column mapping and transfers are functions of two geometries and a source object; no storage, history or order enters (DESIGN 4).',
    'C20': 'flavour conversion and Waiwera export are functions of one model; the file clause is C01 applied to the converted model (DESIGN 4).',
}

# properties whose check exists and runs clean/with known findings on the current tree
BUILT = os.environ.get('VERIF_BUILT', 'C01 C03 C05 C06 C07 C08 C09 C10 C13').split()


def main():
    checks = []
    na = [{'property_id': p, 'reason': r} for p, r in sorted(NOT_APPLICABLE.items())]
    for p in sorted(CLAIMED):
        c = CLAIMED[p]
        if p not in BUILT:
            na.append({'property_id': p, 'reason': 'check designed (DESIGN %s) but not yet built in '
                                                   'this commit; not claimed until it runs' % c['ref']})
            continue
        checks.append({
            'property_id': p,
            'quick_cmd': './check %s --tier quick' % p,
            'thorough_cmd': './check %s --tier thorough' % p,
            'evidence_file': 'evidence/%s.json' % p,
            'replay_cmd_template': './check %s --replay {path}' % p,
            'engine': 'pytough-dst',
            'level_claimed': {'category': 'exploration', 'text': c['text'],
                              'design_ref': 'DESIGN.md section ' + c['ref']},
            'level_note': 'Trusted base: SimFS models CPython file semantics; the hand-written '
                          'field-digit tables, foreign Fortran-style writers and independent parsers of '
                          'the harness; shipped files under /repo/tests as representatives of what the '
                          'simulators print. Sampling, not proof.',
            'technique': 'deterministic simulation with fault injection: seeded op/fault/hash-order '
                         'histories on machine "%s", reference-model and invariant oracles after every '
                         'op, ddmin shrinking, exact replay' % c['machine'],
        })
    na.sort(key=lambda d: d['property_id'])
    man = {
        'version': 1,
        'setup_cmd': 'true',
        'hooks': {
            'guard': 'PYTOUGH_VERIF (unused: no source hook was needed; every seam is a Python '
                     'module global patched by the harness at run time)',
            'enable': 'none needed: checks put /repo first on sys.path and patch '
                      'fixed_format_file.open, t2data.open, t2listing.io, os.path.exists and the '
                      '__hash__/__new__ of mulgrids classes inside the worker process only',
            'baseline_off_cmd': 'cd /repo && /venv/bin/python -m pytest -ra -q -p no:cacheprovider '
                                '--timeout=900 --continue-on-collection-errors',
            'source_commits': [],
            'add_only': True,
        },
        'engines': [{
            'name': 'pytough-dst', 'path': 'sim/',
            'serves_properties': sorted(BUILT),
            'kind_free_text': 'deterministic simulator for PyTOUGH: SimFS storage model with fault '
                              'injection, seeded hash-order scheduler, op-list engine with ddmin and '
                              'replay, three machines (store, listing, edit)',
        }],
        'checks': checks,
        'not_applicable': na,
        'notes': 'Exit codes: 0 held / 1 VIOLATION / 2 harness failure (never a VIOLATION line). '
                 'known_findings.txt lists recorded and fixed defects; fix: commits in /repo repair '
                 'the small ones. See DESIGN.md.',
    }
    with open(os.path.join(VERIF, 'MANIFEST.json'), 'w') as f:
        json.dump(man, f, indent=1)
    print('MANIFEST.json: %d checks, %d not applicable' % (len(checks), len(na)))


if __name__ == '__main__':
    main()
