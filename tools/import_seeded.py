#!/usr/bin/env python3
"""Imports sub-agent breakages from /tmp/wt_<P>/_out/ into /verif/seeded/<P>-s<k>/ after
confirming, in a fresh scratch worktree of /repo (removed afterwards), that
  (a) the patch applies and the library's tests pass exactly as on the clean tree
      (pinned command: 37 pass; from tests/: the same set of passing tests),
  (b) the demonstration passes on the clean tree and fails with the patch.
Usage: import_seeded.py C08 [C09 ...]
"""
import json
import os
import re
import shutil
import subprocess
import sys
import tempfile

VERIF = os.path.dirname(os.path.dirname(os.path.abspath(__file__)))
PY = '/venv/bin/python'


def sh(cmd, cwd=None, env=None, timeout=1800):
    e = dict(os.environ)
    if env:
        e.update(env)
    return subprocess.run(cmd, cwd=cwd, env=e, stdout=subprocess.PIPE, stderr=subprocess.STDOUT,
                          text=True, timeout=timeout)


def test_sets(wt):
    env = {'PYTHONPATH': wt}
    a = sh([PY, '-m', 'pytest', '-q', '-p', 'no:cacheprovider', '--timeout=900',
            '--continue-on-collection-errors', '-rA'], cwd=wt, env=env).stdout
    b = sh([PY, '-m', 'pytest', '-q', '-p', 'no:cacheprovider', '--timeout=900', '-rA'],
           cwd=os.path.join(wt, 'tests'), env=env).stdout
    pa = set(re.findall(r'^PASSED (\S+)', a, re.M))
    pb = set(re.findall(r'^PASSED (\S+)', b, re.M))
    return pa, pb


def demo(wt, path):
    r = sh([PY, '-W', 'ignore', path], cwd=os.path.join(wt, 'tests'), env={'PYTHONPATH': wt},
           timeout=600)
    return r.returncode, r.stdout.strip().splitlines()[-1:] if r.stdout.strip() else ['']


def main():
    args = sys.argv[1:]
    srcfmt, tag = '/tmp/wt_%s/_out', 's'
    if args and args[0].startswith('--round='):
        r = args.pop(0).split('=')[1]
        srcfmt, tag = '/tmp/wt' + r + '_%s/_out', 'r' + r + 's'
    props = args
    wt = tempfile.mkdtemp(prefix='verif-wt-')
    os.rmdir(wt)
    r = sh(['git', '-C', '/repo', 'worktree', 'add', '-q', '--detach', wt, 'HEAD'])
    if r.returncode:
        print(r.stdout)
        return 2
    try:
        base_a, base_b = test_sets(wt)
        print('clean tree: %d / %d tests pass' % (len(base_a), len(base_b)))
        sh(['git', '-C', wt, 'checkout', '--', '.'])
        sh(['git', '-C', wt, 'clean', '-fdq'])
        for prop in props:
            src = srcfmt % prop
            for k in (1, 2, 3, 4, 5):
                patch = os.path.join(src, 'patch%d.diff' % k)
                dm = os.path.join(src, 'demo%d.py' % k)
                if not (os.path.exists(patch) and os.path.exists(dm)):
                    continue
                sid = '%s-%s%d' % (prop, tag, k)
                note = open(os.path.join(src, 'note%d.txt' % k)).read() \
                    if os.path.exists(os.path.join(src, 'note%d.txt' % k)) else ''
                dcopy = os.path.join(wt, '_demo.py')
                shutil.copy(dm, dcopy)
                rc_clean, out_clean = demo(wt, dcopy)
                ap = sh(['git', '-C', wt, 'apply', patch])
                if ap.returncode:
                    print(sid, 'REJECTED: patch does not apply:', ap.stdout[:200])
                    continue
                try:
                    rc_pat, out_pat = demo(wt, dcopy)
                    pa, pb = test_sets(wt)
                finally:
                    sh(['git', '-C', wt, 'checkout', '--', '.'])
                    os.remove(dcopy)
                    sh(['git', '-C', wt, 'clean', '-fdq'])
                ok = rc_clean == 0 and rc_pat != 0 and pa >= base_a and pb >= base_b
                print(sid, 'clean demo rc=%d' % rc_clean, 'patched demo rc=%d' % rc_pat,
                      'tests %d/%d' % (len(pa), len(pb)), 'ACCEPTED' if ok else 'REJECTED',
                      out_pat)
                if not ok:
                    continue
                dst = os.path.join(VERIF, 'seeded', sid)
                os.makedirs(dst, exist_ok=True)
                shutil.copy(patch, os.path.join(dst, 'patch.diff'))
                shutil.copy(dm, os.path.join(dst, 'demo.py'))
                meta = {
                    'id': sid, 'property': prop, 'source': 'independent sub-agent given only the '
                    'property text and a scratch worktree',
                    'what_it_needs_to_manifest': note.strip(),
                    'confirmed': {
                        'patch_applies_to': sh(['git', '-C', '/repo', 'rev-parse', '--short',
                                                'HEAD']).stdout.strip(),
                        'pinned_tests_pass_with_patch': len(pa), 'pinned_tests_clean': len(base_a),
                        'tests_from_tests_dir_pass_with_patch': len(pb),
                        'tests_from_tests_dir_clean': len(base_b),
                        'demo_clean_exit': rc_clean, 'demo_patched_exit': rc_pat,
                        'demo_patched_last_line': out_pat,
                        'how': 'tools/import_seeded.py in a fresh scratch worktree (removed '
                               'afterwards): git apply; pytest from the root and from tests/ with '
                               'PYTHONPATH=<worktree>; demo run from tests/ both ways'}}
                json.dump(meta, open(os.path.join(dst, 'meta.json'), 'w'), indent=1)
    finally:
        sh(['git', '-C', '/repo', 'worktree', 'remove', '--force', wt])
    return 0


if __name__ == '__main__':
    sys.exit(main())
