#!/usr/bin/env python3
"""Self-tests of the simulator itself (DESIGN 2.8)."""
import json
import os
import subprocess
import sys
import tempfile
import time

VERIF = os.path.dirname(os.path.dirname(os.path.abspath(__file__)))
PROPS = ['C01', 'C03', 'C05', 'C06', 'C07', 'C08', 'C09', 'C10', 'C13']


def run(prop, runs, extra, dump, seed='0'):
    env = dict(os.environ, VERIF_SEED=seed)
    cmd = [os.path.join(VERIF, 'check'), prop, '--runs', str(runs), '--no-evidence',
           '--no-shrink', '--budget-s', '3000', '--dump', dump] + extra
    p = subprocess.run(cmd, stdout=subprocess.PIPE, stderr=subprocess.STDOUT, env=env)
    return p.returncode, json.load(open(dump))


def determinism(runs):
    tmp = tempfile.mkdtemp(prefix='verif-selftest-')
    report = {}
    ok = True
    try:
        for prop in PROPS:
            t0 = time.time()
            rc1, a = run(prop, runs, ['--workers', '16'], os.path.join(tmp, 'a.json'))
            rc2, b = run(prop, runs, ['--workers', '5', '--reverse'], os.path.join(tmp, 'b.json'))
            rc3, c = run(prop, runs, ['--workers', '16', '--hashseed-offset', '12345'],
                         os.path.join(tmp, 'c.json'))
            same = a == b and len(a) >= runs      # (sweep cases come on top)
            moved = sum(1 for k in a if a[k] != c.get(k))
            report[prop] = {'runs': len(a), 'identical_across_processes_order_workers': same,
                            'differing': sum(1 for k in a if a[k] != b.get(k)),
                            'digests_moved_under_other_PYTHONHASHSEED': moved,
                            'wall_s': round(time.time() - t0, 1)}
            print(prop, report[prop])
            sys.stdout.flush()
            if not same:
                ok = False
                bad = [k for k in a if a[k] != b.get(k)][:5]
                print('  NONDETERMINISTIC runs (index):', bad)
    finally:
        for f in os.listdir(tmp):
            os.remove(os.path.join(tmp, f))
        os.rmdir(tmp)
    out = os.path.join(VERIF, 'selftest_results', 'determinism.json')
    os.makedirs(os.path.dirname(out), exist_ok=True)
    json.dump(report, open(out, 'w'), indent=1, sort_keys=True)
    print('determinism:', 'OK' if ok else 'FAILED')
    return 0 if ok else 2


if __name__ == '__main__':
    what = sys.argv[1] if len(sys.argv) > 1 else 'determinism'
    if what == 'determinism':
        sys.exit(determinism(int(sys.argv[2]) if len(sys.argv) > 2 else 2048))
    if what == 'realfs':
        sys.exit(subprocess.call(['/venv/bin/python', '-W', 'ignore',
                                  os.path.join(VERIF, 'tools', 'realfs_check.py')] + sys.argv[2:]))
    print(__doc__)
    sys.exit(2)
