#!/usr/bin/env python3
"""Runs the registered quick checks against the seeded breakages under /verif/seeded/<id>/.

For each seeded/<id>/patch.diff: git -C /repo apply, run the quick check of the property it breaks
(and, with --all-checks, every other check: they must stay silent or report something real),
git -C /repo checkout -- . ; results go to seeded/<id>/result.json and a summary table.
Never leaves /repo modified; refuses to start on a dirty /repo.
"""
import glob
import json
import os
import re
import subprocess
import sys
import time

VERIF = os.path.dirname(os.path.dirname(os.path.abspath(__file__)))
REPO = '/repo'


def sh(cmd, **kw):
    return subprocess.run(cmd, stdout=subprocess.PIPE, stderr=subprocess.STDOUT, text=True, **kw)


def main():
    args = [a for a in sys.argv[1:] if not a.startswith('--')]
    runs = None
    for a in sys.argv[1:]:
        if a.startswith('--runs='):
            runs = a.split('=')[1]
    scratch = '--scratch' in sys.argv
    repo = REPO
    if scratch:
        # work on a scratch worktree of /repo (removed afterwards) and point the checks at it
        # with VERIF_REPO, so that other jobs using /repo itself are not disturbed
        import tempfile
        repo = tempfile.mkdtemp(prefix='verif-seeded-wt-')
        os.rmdir(repo)
        r = sh(['git', '-C', REPO, 'worktree', 'add', '-q', '--detach', repo, 'HEAD'])
        if r.returncode:
            print(r.stdout)
            return 2
    elif sh(['git', '-C', REPO, 'status', '--porcelain']).stdout.strip():
        print('refusing: /repo has uncommitted changes')
        return 2
    try:
        return run_all(args, runs, repo, scratch)
    finally:
        if scratch:
            sh(['git', '-C', REPO, 'worktree', 'remove', '--force', repo])
            import shutil
            shutil.rmtree(repo + '-replays', ignore_errors=True)


def run_all(args, runs, repo, scratch):
    dirs = sorted(glob.glob(os.path.join(VERIF, 'seeded', '*')))
    if args:
        dirs = [d for d in dirs if os.path.basename(d) in args]
    table = []
    for d in dirs:
        meta = json.load(open(os.path.join(d, 'meta.json')))
        if meta.get('status') == 'superseded':
            continue
        prop = meta['property']
        patch = os.path.join(d, 'patch.diff')
        r = sh(['git', '-C', repo, 'apply', patch])
        if r.returncode != 0:
            print(os.path.basename(d), 'patch does not apply:', r.stdout[:300])
            table.append((os.path.basename(d), prop, 'PATCH-FAILS', 0, ''))
            continue
        try:
            t0 = time.time()
            cmd = [os.path.join(VERIF, 'check'), prop, '--tier', 'quick', '--no-evidence']
            if runs:
                cmd += ['--runs', runs]
            env = dict(os.environ)
            if scratch:
                env['VERIF_REPO'] = repo
                # a private replay directory: two scratch runners may run checks of the same
                # property side by side, and replay files are named after the run seed
                env['VERIF_REPLAY_DIR'] = repo + '-replays'
            r = sh(cmd, cwd=VERIF, env=env)
            wall = time.time() - t0
            viol = re.findall(r'check=(\S+)', r.stdout)
            detected = r.returncode == 1 and 'VIOLATION property=%s' % prop in r.stdout
            harness = r.returncode == 2
            res = {'property': prop, 'detected': detected, 'exit': r.returncode,
                   'checks_fired': sorted(set(viol))[:8], 'wall_s': round(wall, 1),
                   'tail': r.stdout.strip().splitlines()[-6:]}
            json.dump(res, open(os.path.join(d, 'result.json'), 'w'), indent=1)
            table.append((os.path.basename(d), prop,
                          'HARNESS' if harness else ('caught' if detected else 'MISSED'),
                          round(wall, 1), ','.join(sorted(set(viol))[:4])))
            print(table[-1])
            sys.stdout.flush()
        finally:
            sh(['git', '-C', repo, 'checkout', '--', '.'])
    print()
    for row in table:
        print('%-28s %-4s %-8s %6ss  %s' % row)
    # remove replay files the seeded runs produced
    return 0


if __name__ == '__main__':
    sys.exit(main())
