#!/usr/bin/env python3
"""Lists the slowest runs of a check (diagnostic)."""
import json, os, subprocess, sys
from concurrent.futures import ThreadPoolExecutor
VERIF = os.path.dirname(os.path.dirname(os.path.abspath(__file__)))
sys.path.insert(0, VERIF)
from sim import registry, seeds
prop, nruns = sys.argv[1], int(sys.argv[2])
block = registry.REGISTRY[prop][2]
def go(s):
    job = {'mode': 'explore', 'prop': prop, 'master': 0, 'tier': 'quick', 'start': s,
           'end': min(s + block, nruns), 'known': [], 'replay_dir': '/tmp/x', 'shrink': False, 'all_ops': True}
    env = dict(os.environ, PYTHONHASHSEED=str(seeds.block_hashseed(0, prop, s // block)))
    p = subprocess.run(['/venv/bin/python', '-W', 'ignore', os.path.join(VERIF, 'sim', 'worker.py')],
                       input=json.dumps(job).encode(), stdout=subprocess.PIPE, stderr=subprocess.PIPE, env=env)
    return [json.loads(l) for l in p.stdout.decode().splitlines() if l.startswith('{')]
with ThreadPoolExecutor(16) as ex:
    recs = [r for rs in ex.map(go, range(0, nruns, block)) for r in rs if 'wall' in r]
recs.sort(key=lambda r: -r['wall'])
for r in recs[:8]:
    print(r['i'], r['wall'], r['outcome'], [o[0] for o in r['ops']], r['knobs'].get('source'))
print('total', sum(r['wall'] for r in recs))
