#!/usr/bin/env python3
"""Self-test of the storage stub: fault-free store runs executed on SimFS and on a real temporary
directory (through the same seam) must give identical event digests."""
import json
import os
import shutil
import sys
import tempfile

VERIF = os.path.dirname(os.path.dirname(os.path.abspath(__file__)))
sys.path[:0] = [os.environ.get('VERIF_REPO', '/repo'), VERIF]
import warnings
warnings.simplefilter('ignore')
devnull = open(os.devnull, 'w')
from sim import seeds, engine, registry  # noqa: E402


def main():
    n = int(sys.argv[1]) if len(sys.argv) > 1 else 300
    report = {}
    ok = True
    real_stdout = sys.stdout
    for prop in ('C13', 'C03', 'C01', 'C08', 'C10'):
        cls = registry.machine_for(prop)
        same = diff = done = 0
        i = 0
        while done < n and i < 20 * n:
            seed = seeds.run_seed(12345, prop, i)
            i += 1
            knobs = cls.knobs(seeds.stream(seed, 'knob'), 'quick')
            if knobs.get('fault_rate'):
                continue
            ops = cls.generate(seeds.stream(seed, 'gen'), knobs)
            ops = [o for o in ops if o[0] != 'CRASH']
            sys.stdout = devnull
            try:
                a = engine.execute(cls, seed, knobs, ops)
                root = tempfile.mkdtemp(prefix='verif-realfs-')
                try:
                    b = engine.execute(cls, seed, knobs, ops, realfs_root=root)
                finally:
                    shutil.rmtree(root, ignore_errors=True)
            finally:
                sys.stdout = real_stdout
            done += 1
            if a['digest'] == b['digest'] and a['outcome'] == b['outcome'] and a['check'] == b['check']:
                same += 1
            else:
                diff += 1
                if diff <= 3:
                    print(prop, 'seed', seed, 'sim', a['outcome'], a['msg'], '| real', b['outcome'],
                          b['msg'])
        report[prop] = {'fault_free_runs': done, 'identical_digests': same, 'different': diff}
        print(prop, report[prop])
        ok = ok and diff == 0
    os.makedirs(os.path.join(VERIF, 'selftest_results'), exist_ok=True)
    json.dump(report, open(os.path.join(VERIF, 'selftest_results', 'realfs.json'), 'w'), indent=1)
    print('realfs:', 'OK' if ok else 'FAILED')
    return 0 if ok else 2


if __name__ == '__main__':
    sys.exit(main())
