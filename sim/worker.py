"""Worker process: executes a block of runs (or one replay) and reports one JSON line per run."""
import faulthandler
import json
import os
import sys
import time


def main():
    job = json.loads(sys.stdin.read())
    out = os.fdopen(os.dup(1), 'w')
    devnull = os.open(os.devnull, os.O_WRONLY)
    os.dup2(devnull, 1)                      # the repo prints progress text; not ours
    sys.stdout = os.fdopen(1, 'w', closefd=False)
    verif = os.path.dirname(os.path.dirname(os.path.abspath(__file__)))
    repo = os.environ.get('VERIF_REPO', '/repo')
    sys.path[:0] = [repo, verif]
    import warnings
    warnings.simplefilter('ignore')
    faulthandler.dump_traceback_later(job.get('watchdog_s', 900), exit=True)
    from sim import seeds, engine, registry
    cls = registry.machine_for(job['prop'])
    prop = job['prop']
    hashseed = int(os.environ.get('PYTHONHASHSEED', '0'))

    def emit(d):
        out.write(json.dumps(d, sort_keys=True, default=repr) + '\n')
        out.flush()

    if job['mode'] == 'replay':
        rp = job['replay']
        rec = engine.execute(cls, rp['seed'], rp['knobs'], rp['ops'])
        emit({'mode': 'replay', 'outcome': rec['outcome'], 'check': rec['check'],
              'msg': rec['msg'], 'key': rec['key'], 'digest': rec['digest'],
              'io_digest': rec['io_digest'], 'op_index': rec['op_index']})
        return

    known = set(tuple(k) for k in job.get('known', []))
    master, tier = job['master'], job['tier']
    order = range(job['start'], job['end'])
    if job.get('reverse'):
        order = reversed(list(order))
    for i in order:
        t0 = time.time()
        if job['mode'] == 'sweep':
            # deterministic enumeration: case i of the machine's bounded op-sequence space
            seed = seeds.H(master, prop, 'sweep', i)
            knobs, ops = cls.sweep_case(i, tier)
        else:
            seed = seeds.run_seed(master, prop, i)
            knobs = cls.knobs(seeds.stream(seed, 'knob'), tier)
            ops = cls.generate(seeds.stream(seed, 'gen'), knobs)
        rec = engine.execute(cls, seed, knobs, ops)
        d = {'i': i, 'seed': seed, 'outcome': rec['outcome'], 'check': rec['check'],
             'key': rec['key'], 'msg': rec['msg'], 'digest': rec['digest'],
             'nontrivial': rec['nontrivial'], 'fp': rec['fingerprint'],
             'io_steps': rec['io_steps'], 'faults_fired': rec['faults_fired'],
             'stats': rec['stats'], 'probes': rec['probes'], 'n_ops': len(ops),
             'fault_rate': knobs.get('fault_rate', 0.0), 'steps_by_class': rec['steps_by_class']}
        if i == job['start'] or job.get('all_ops'):
            d['ops'] = ops
            d['knobs'] = knobs
        if rec['outcome'] == 'violation' and (rec['check'], rec['key']) not in known \
                and job.get('shrink', True):
            ops2, knobs2, tries = engine.shrink(cls, seed, knobs, ops, rec['check'],
                                                budget_s=job.get('shrink_s', 60))
            rec2 = engine.execute(cls, seed, knobs2, ops2)
            rec3 = engine.execute(cls, seed, knobs2, ops2)
            if rec2['outcome'] != 'violation' or rec2['check'] != rec['check']:
                ops2, knobs2, rec2 = ops, knobs, rec       # shrinking lost it: keep original
                rec3 = engine.execute(cls, seed, knobs2, ops2)
            rp = engine.make_replay(prop, cls.__name__, seed, knobs2, ops2, rec2, hashseed,
                                    master, i)
            rp['shrink_tries'] = tries
            rp['original_n_ops'] = len(ops)
            rp['deterministic_in_process'] = rec2['digest'] == rec3['digest']
            os.makedirs(job['replay_dir'], exist_ok=True)
            path = os.path.join(job['replay_dir'], '%s-%d.json' % (prop, seed))
            with open(path, 'w') as f:
                json.dump(rp, f, indent=1, sort_keys=True, default=repr)
            d.update(replay=path, check=rec2['check'], key=rec2['key'], msg=rec2['msg'],
                     shrunk_n_ops=len(ops2))
        d['wall'] = round(time.time() - t0, 4)
        emit(d)
    emit({'block_done': True, 'start': job['start'], 'end': job['end']})


if __name__ == '__main__':
    main()
