"""Parent process of a check: deals blocks of runs to worker interpreters, aggregates,
matches known findings, writes evidence, decides the exit code (DESIGN 2.7).

exit 0: property held on everything explored (KNOWN-FINDING lines may be printed)
exit 1: `VIOLATION property=<id> replay=<path>` printed
exit 2: the harness itself failed (never reported as a violation)
"""
import argparse
import collections
import glob
import json
import os
import queue
import subprocess
import sys
import threading
import time

VERIF = os.path.dirname(os.path.dirname(os.path.abspath(__file__)))
sys.path.insert(0, VERIF)
from sim import seeds, registry  # noqa: E402

PY = os.environ.get('VERIF_PYTHON', '/venv/bin/python')
WORKER = os.path.join(VERIF, 'sim', 'worker.py')


def load_known(prop):
    """known_findings.txt lines: `known: property=<id> check=<check> key=<key> :: text`."""
    known = []
    path = os.path.join(VERIF, 'known_findings.txt')
    if os.path.exists(path):
        for line in open(path):
            line = line.strip()
            if not line.startswith('known:'):
                continue
            head, _, text = line[len('known:'):].partition('::')
            f = dict(tok.split('=', 1) for tok in head.split() if '=' in tok)
            if f.get('property') == prop:
                known.append((f.get('check'), f.get('key'), text.strip()))
    return known


def run_worker(job, hashseed, timeout):
    env = dict(os.environ)
    env['PYTHONHASHSEED'] = str(hashseed)
    env['PYTHONDONTWRITEBYTECODE'] = '1'
    env.pop('PYTHONPATH', None)
    p = subprocess.Popen([PY, '-W', 'ignore', WORKER], stdin=subprocess.PIPE,
                         stdout=subprocess.PIPE, stderr=subprocess.PIPE, env=env)
    try:
        o, e = p.communicate(json.dumps(job).encode(), timeout=timeout)
    except subprocess.TimeoutExpired:
        p.kill()
        o, e = p.communicate()
        return None, 'timeout', e.decode('utf-8', 'replace')[-3000:]
    recs = []
    for line in o.decode('utf-8', 'replace').splitlines():
        try:
            recs.append(json.loads(line))
        except ValueError:
            pass
    return recs, p.returncode, e.decode('utf-8', 'replace')[-3000:]


def replay_file(path, quiet=False):
    rp = json.load(open(path))
    job = {'mode': 'replay', 'prop': rp['property'], 'replay': rp, 'watchdog_s': 600}
    recs, rc, err = run_worker(job, rp.get('pythonhashseed', 0), 900)
    if not recs:
        return None, 'worker failed rc=%s %s' % (rc, err)
    return recs[0], rp


def main(argv=None):
    ap = argparse.ArgumentParser()
    ap.add_argument('prop')
    ap.add_argument('--tier', default=os.environ.get('VERIF_TIER') or 'quick')
    ap.add_argument('--runs', type=int, default=None)
    ap.add_argument('--workers', type=int, default=int(os.environ.get('VERIF_WORKERS', '16')))
    ap.add_argument('--budget-s', type=float, default=None)
    ap.add_argument('--replay', default=None)
    ap.add_argument('--no-evidence', action='store_true')
    ap.add_argument('--dump', default=None, help='write every run digest to this file (selftests)')
    ap.add_argument('--no-shrink', action='store_true')
    ap.add_argument('--sweep', type=int, default=None,
                    help='number of deterministic sweep cases to run (default: 600 quick / all thorough)')
    ap.add_argument('--reverse', action='store_true',
                    help='selftest: execute the runs of each block in reverse order')
    ap.add_argument('--hashseed-offset', type=int, default=0,
                    help='selftest: perturb PYTHONHASHSEED (digests of order-dependent runs must move)')
    a = ap.parse_args(argv)
    prop = a.prop
    tier = a.tier if a.tier in ('quick', 'thorough') else 'quick'
    try:
        master = int(os.environ.get('VERIF_SEED', '0') or 0)
    except ValueError:
        master = seeds.H(os.environ.get('VERIF_SEED'))
    print('check %s tier=%s VERIF_SEED=%d' % (prop, tier, master))
    sys.stdout.flush()

    if a.replay:
        rec, rp = replay_file(a.replay)
        if rec is None:
            print('HARNESS-ERROR replay: %s' % rp)
            return 2
        same = rec['outcome'] == 'violation' and rec['check'] == rp['check']
        print('replay outcome=%s check=%s (recorded %s) digest %s (recorded %s)'
              % (rec['outcome'], rec['check'], rp['check'], rec['digest'], rp['event_digest']))
        if rec['outcome'] == 'violation':
            print('  %s' % rec['msg'])
            print('VIOLATION property=%s replay=%s' % (prop, a.replay))
            return 1
        if rec['outcome'] == 'harness':
            print('HARNESS-ERROR %s' % rec['msg'])
            return 2
        print('replay is clean on this tree')
        return 0

    t0 = time.time()
    mod, clsname, block, nquick, nthorough = registry.REGISTRY[prop]
    nruns = a.runs if a.runs is not None else (nquick if tier == 'quick' else nthorough)
    budget = a.budget_s if a.budget_s is not None else (100.0 if tier == 'quick' else 3600.0)
    known = load_known(prop)
    known_keys = [(c, k) for c, k, _ in known]
    # (VERIF_REPLAY_DIR: a private directory for a caller that runs several checks of the same
    # property side by side, e.g. tools/run_seeded.py; replay files are named after their seed)
    replay_dir = os.environ.get('VERIF_REPLAY_DIR') or os.path.join(VERIF, 'replays')
    violations = []          # (record) not known
    known_seen = collections.Counter()
    harness = []

    # 1. regression replays (fixed defects must stay fixed)
    regs = sorted(glob.glob(os.path.join(VERIF, 'regressions', prop + '-*.json')))
    reg_results = []
    for path in regs:
        rec, rp = replay_file(path)
        if rec is None:
            harness.append('regression %s: %s' % (path, rp))
            continue
        reg_results.append((os.path.basename(path), rec['outcome'], rec['check']))
        if rec['outcome'] == 'violation':
            if (rec['check'], rec['key']) in known_keys:
                known_seen[(rec['check'], rec['key'])] += 1
            else:
                violations.append({'replay': path, 'check': rec['check'], 'msg': rec['msg'],
                                   'key': rec['key'], 'seed': rp['seed']})
        elif rec['outcome'] == 'harness':
            harness.append('regression %s: %s' % (path, rec['msg']))

    # 2. seeded exploration
    blocks = [('explore', s, min(s + block, nruns)) for s in range(0, nruns, block)]
    # deterministic sweep of the machine's bounded op-sequence space (a prefix in the quick tier)
    cls = registry.machine_for(prop)
    sweep_total = cls.sweep_size(tier)
    sweep_n = sweep_total if tier == 'thorough' else min(sweep_total, a.sweep if a.sweep
                                                         is not None else
                                                         getattr(cls, 'SWEEP_QUICK', 600))
    if a.sweep is not None:
        sweep_n = min(sweep_total, a.sweep)
    sblock = max(block, 256)
    blocks += [('sweep', s, min(s + sblock, sweep_n)) for s in range(0, sweep_n, sblock)]
    q = queue.Queue()
    for b in blocks:
        q.put(b)
    lock = threading.Lock()
    agg = {'runs': 0, 'nontrivial_fps': set(), 'fps': set(), 'io_steps': 0, 'ops': 0,
           'fault_free_runs': 0, 'faults': collections.Counter(), 'stats': collections.Counter(),
           'probes': collections.Counter(), 'steps_by_class': collections.Counter(),
           'samples': [], 'outcomes': collections.Counter(), 'digests': {}, 'blocks_done': 0,
           'max_steps_run': 0, 'nontrivial_runs': 0, 'violating_runs_fault_free': 0,
           'sweep_runs': 0}
    stop = threading.Event()

    def work():
        while not stop.is_set():
            try:
                mode, s, e = q.get_nowait()
            except queue.Empty:
                return
            if time.time() - t0 > budget:
                return
            bi = s // block if mode == 'explore' else 10 ** 6 + s // sblock
            job = {'mode': mode, 'prop': prop, 'master': master, 'tier': tier, 'start': s,
                   'end': e, 'known': known_keys, 'replay_dir': replay_dir,
                   'shrink': not a.no_shrink, 'watchdog_s': 1200, 'reverse': a.reverse}
            recs, rc, err = run_worker(job, (seeds.block_hashseed(master, prop, bi) +
                                             a.hashseed_offset) % (2 ** 32), 1500)
            with lock:
                if recs is None or rc != 0 or not recs or not recs[-1].get('block_done'):
                    harness.append('block %d-%d: worker rc=%s: %s' % (s, e, rc, err[-1500:]))
                    continue
                agg['blocks_done'] += 1
                if mode == 'sweep':
                    agg['sweep_runs'] += len(recs) - 1
                for r in recs[:-1]:
                    agg['runs'] += 1
                    agg['outcomes'][r['outcome']] += 1
                    agg['io_steps'] += r['io_steps']
                    agg['max_steps_run'] = max(agg['max_steps_run'], r['io_steps'])
                    agg['ops'] += r['n_ops']
                    agg['fps'].add(r['fp'])
                    if r['nontrivial']:
                        agg['nontrivial_runs'] += 1
                        agg['nontrivial_fps'].add(r['fp'])
                    if not r.get('fault_rate'):
                        agg['fault_free_runs'] += 1
                    for f in r['faults_fired']:
                        agg['faults'][f] += 1
                    agg['stats'].update(r['stats'])
                    agg['probes'].update(r['probes'])
                    agg['steps_by_class'].update(r['steps_by_class'])
                    if a.dump:
                        agg['digests'][('s%d' % r['i']) if mode == 'sweep' else r['i']] = \
                            r['digest']
                    if 'ops' in r and len(agg['samples']) < 3 and r['outcome'] == 'ok' \
                            and r['nontrivial']:
                        agg['samples'].append({'run': r['i'], 'seed': r['seed'],
                                               'knobs': r['knobs'], 'ops': r['ops']})
                    if r['outcome'] == 'violation':
                        if (r['check'], r['key']) in known_keys:
                            known_seen[(r['check'], r['key'])] += 1
                        else:
                            violations.append(r)
                            if not r.get('fault_rate'):
                                agg['violating_runs_fault_free'] += 1
                    elif r['outcome'] == 'harness':
                        harness.append('run %d seed %d: %s' % (r['i'], r['seed'], r['msg']))

    threads = [threading.Thread(target=work) for _ in range(max(1, a.workers))]
    for t in threads:
        t.start()
    for t in threads:
        t.join()
    wall_explore = time.time() - t0

    # 3. confirm new violations replay in a fresh interpreter (first few)
    nondet = []
    seen_checks = set()
    report = []
    for v in sorted(violations, key=lambda r: (r.get('shrunk_n_ops', 0), r.get('i', 0))):
        ck = (v['check'], v.get('key'))
        if ck in seen_checks and len(report) >= 5:
            continue
        seen_checks.add(ck)
        report.append(v)
    for v in report[:8]:
        if 'replay' in v and v['replay'] and '/regressions/' not in v['replay']:
            rec, rp = replay_file(v['replay'])
            if rec is None or rec['outcome'] != 'violation' or rec['check'] != rp['check'] \
                    or rec['digest'] != rp['event_digest']:
                nondet.append((v['replay'], rec))

    wall = time.time() - t0
    # ---- evidence
    if not a.no_evidence:
        ev = {
            'property_id': prop, 'tier': tier, 'seed': master, 'level': 'exploration',
            'wall_s': round(wall, 2), 'violations': len(violations),
            'coverage': {
                'evaluations': agg['runs'],
                'distinct_nontrivial': len(agg['nontrivial_fps']),
                'rule': 'one evaluation = one simulated run (op list generated from '
                        'H(VERIF_SEED, property, run index), executed against the real PyTOUGH '
                        'code on SimFS under the seeded hash order); non-trivial = the run '
                        'completed at least two state-changing, oracle-checked operations; '
                        'distinct = distinct run fingerprints (machine-specific abstraction of '
                        'op kinds, configuration, fault fired and outcome per op) among those',
                'samples': agg['samples'] or [{'note': 'no clean non-trivial run sampled'}],
                'runs_planned': nruns + sweep_n, 'runs_executed': agg['runs'],
                'sweep': {'cases_total': sweep_total, 'cases_planned': sweep_n,
                          'cases_run': agg['sweep_runs'],
                          'complete': sweep_total > 0 and agg['sweep_runs'] == sweep_total,
                          'note': 'deterministic enumeration of a bounded op-sequence space '
                                  '(see the machine); a small deterministic prefix of the search, '
                                  'it does not raise the claimed level'},
                'runs_per_hour': int(agg['runs'] / max(wall_explore, 1e-6) * 3600),
                'ops_executed': agg['ops'],
                'io_steps_total': agg['io_steps'],
                'io_steps_max_per_run': agg['max_steps_run'],
                'io_steps_by_class': dict(agg['steps_by_class']),
                'simulated_time_note': 'there is no clock in PyTOUGH; simulated time is the '
                                       'I/O step count',
                'fault_free_runs': agg['fault_free_runs'],
                'faults_fired': dict(agg['faults']),
                'stats': dict(agg['stats']),
                'probes': dict(agg['probes']),
                'distinct_fingerprints_all': len(agg['fps']),
                'nontrivial_runs': agg['nontrivial_runs'],
                'outcomes': dict(agg['outcomes']),
                'regressions_replayed': reg_results,
                'known_findings_seen': {'%s|%s' % k: n for k, n in known_seen.items()},
                'workers': a.workers, 'block_size': block,
                'components_real': ['every PyTOUGH module under /repo (working tree)', 'numpy',
                                    'scipy', 'CPython str/float formatting'],
                'components_stubbed': ['filesystem (SimFS)', 'os.path.exists',
                                       'object hashing of mulgrids classes (seeded)',
                                       'the other party writing files (foreign Fortran-style '
                                       'writer, shipped files)'],
                'exhaustive': False,
            },
            'assumptions': ['sampling, not proof', 'SimFS models CPython file semantics',
                            'hand-written field-digit tables and foreign writers are trusted'],
        }
        os.makedirs(os.path.join(VERIF, 'evidence'), exist_ok=True)
        with open(os.path.join(VERIF, 'evidence', prop + '.json'), 'w') as f:
            json.dump(ev, f, indent=1, sort_keys=True, default=repr)
    if a.dump:
        with open(a.dump, 'w') as f:
            json.dump({str(k): v for k, v in sorted(agg['digests'].items(), key=lambda kv: str(kv[0]))}, f)

    # ---- verdict
    print('runs=%d blocks=%d/%d nontrivial=%d distinct=%d io_steps=%d faults=%s wall=%.1fs'
          % (agg['runs'], agg['blocks_done'], len(blocks), agg['nontrivial_runs'],
             len(agg['nontrivial_fps']), agg['io_steps'], dict(agg['faults']), wall))
    for (c, k), n in sorted(known_seen.items()):
        text = next((t for cc, kk, t in known if (cc, kk) == (c, k)), '')
        print('KNOWN-FINDING: property=%s check=%s key=%s (%d runs) %s' % (prop, c, k, n, text))
    if harness:
        for h in harness[:10]:
            print('HARNESS-ERROR %s' % h)
        return 2
    if nondet:
        for path, rec in nondet:
            print('HARNESS-NONDETERMINISM replay %s did not reproduce: %r' % (path, rec))
        return 2
    if violations:
        for v in report[:8]:
            print('  check=%s key=%s: %s' % (v['check'], v.get('key'), (v['msg'] or '')[:300]))
            print('VIOLATION property=%s replay=%s' % (prop, v.get('replay')))
        print('%d violating runs in total' % len(violations))
        return 1
    if agg['runs'] == 0:
        print('HARNESS-ERROR no runs executed')
        return 2
    print('OK property=%s held on everything explored' % prop)
    return 0


if __name__ == '__main__':
    sys.exit(main())
