"""Objects built from scratch do not depend on what the process did before.

A digest of a few small objects made through the public constructors (a rectangular geometry, the
grid generated from it, an empty data object, an empty set of initial conditions).  The engine
takes it once per process on pristine module state and again at the end of some runs: a
difference means an earlier operation on *another* object left something behind (a shared default
argument, a class-level container) that new objects now start from.
"""


def _plain(v, depth=0):
    import numpy as np
    if isinstance(v, (int, float, str, bool, type(None))):
        return repr(v)
    if isinstance(v, np.ndarray):
        return repr(v.tolist())
    if isinstance(v, (list, tuple)) and depth < 3:
        return '[' + ','.join(_plain(x, depth + 1) for x in v) + ']'
    if isinstance(v, dict) and depth < 3:
        return '{' + ','.join('%r:%s' % (k, _plain(x, depth + 1))
                              for k, x in sorted(v.items(), key=lambda kv: repr(kv[0]))) + '}'
    return type(v).__name__


def digest():
    import mulgrids
    import t2grids
    import t2data
    import t2incons
    out = []
    geo = mulgrids.mulgrid().rectangular([10., 20.], [15.], [5., 5.], atmos_type=0)
    out.append(('geo', geo.convention, geo.atmosphere_type, geo.unit_type, geo.block_order,
                geo.atmosphere_volume, geo.atmosphere_connection, geo.permeability_angle,
                list(geo.block_name_list), [tuple(k) for k in geo.block_connection_name_list],
                [(c.name, c.num_layers, float(c.surface)) for c in geo.columnlist],
                [(l.name, l.bottom, l.centre) for l in geo.layerlist]))
    g = t2grids.t2grid().fromgeo(geo)
    out.append(('grid', [(rt.name, sorted((k, _plain(v)) for k, v in rt.__dict__.items()))
                         for rt in g.rocktypelist], sorted(g.rocktype),
                [(b.name, b.volume, b.rocktype.name, b.rocktype is g.rocktype.get(b.rocktype.name),
                  sorted(b.connection_name)) for b in g.blocklist],
                [(tuple(b.name for b in c.block), c.area, list(c.distance), c.direction, c.dircos)
                 for c in g.connectionlist]))
    rt = t2grids.rocktype()
    out.append(('rock', sorted((k, _plain(v)) for k, v in rt.__dict__.items())))
    blk = t2grids.t2block()
    out.append(('block', blk.name, blk.volume, sorted(blk.connection_name), blk.rocktype.name))
    dat = t2data.t2data()
    out.append(('data', sorted((k, _plain(v)) for k, v in dat.__dict__.items()
                               if k not in ('grid', 'read_fn', 'write_fn', 'read_function'))))
    inc = t2incons.t2incon()
    out.append(('incon', sorted((k, _plain(v)) for k, v in inc.__dict__.items())))
    return repr(out)


_PRISTINE = [None]


def pristine():
    if _PRISTINE[0] is None:
        _PRISTINE[0] = digest()
    return _PRISTINE[0]


def difference(a, b):
    i = next((k for k, (x, y) in enumerate(zip(a, b)) if x != y), min(len(a), len(b)))
    return '...%s... became ...%s...' % (a[max(0, i - 60):i + 60], b[max(0, i - 60):i + 60])
