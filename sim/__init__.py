"""Deterministic simulation harness for PyTOUGH (see /verif/DESIGN.md)."""
