"""Run engine: executes an op list against a machine inside the simulator, shrinks, replays.

A run is a pure function of (machine, seed, knobs, ops, PYTHONHASHSEED, code, data files).
"""
import collections
import json
import os
import sys
import time
import traceback

from . import seeds
from .simfs import SimFS, SEAMS, SimCrash, SimBudgetExceeded, HarnessError
from .hashseam import SCHED
from .globalseam import GLOBALS


class Violation(Exception):
    """A property check failed.  `check` is the oracle id (O1, H3, J6 ...), `key` a canonical
    description of the failing input class used only to match the known-findings file."""

    def __init__(self, check, msg, key='-'):
        Exception.__init__(self, '%s: %s' % (check, msg))
        self.check, self.msg, self.key = check, msg, key


class Ctx(object):
    def __init__(self, seed, knobs, realfs_root=None):
        self.seed = seed
        self.knobs = knobs
        self.fault_rng = seeds.stream(seed, 'fault')
        self.aux_rng = seeds.stream(seed, 'aux')
        if realfs_root is not None:
            from .simfs import RealFS
            self.fs = RealFS(realfs_root)
        else:
            self.fs = SimFS(bufsize=knobs.get('bufsize'))
        self.stats = collections.Counter()     # ops executed / skipped, faults armed ...
        self.probes = collections.Counter()    # rare-branch reach counters
        self.digest = seeds.Digest()
        self.fp = []                            # fingerprint atoms
        self.state_changes = 0

    def scratch_fs(self):
        return _Scratch(self)


class _Scratch(object):
    """Swap in a clone of the image for a fault-free dry run; restore afterwards."""

    def __init__(self, ctx):
        self.ctx = ctx

    def __enter__(self):
        real = self.ctx.fs
        clone = SimFS(bufsize=real.bufsize)
        clone.files = dict(real.files)
        self.real = real
        self.ctx.fs = clone
        SEAMS.fs = clone
        clone.begin_op()
        return clone

    def __exit__(self, *exc):
        self.ctx.fs = self.real
        SEAMS.fs = self.real
        return False


class Machine(object):
    PROP = None

    @classmethod
    def knobs(cls, rng, tier):
        return {}

    @classmethod
    def generate(cls, rng, knobs):
        raise NotImplementedError

    @classmethod
    def sweep_size(cls, tier):
        """Number of cases of the machine's deterministic sweep (0 = none)."""
        return 0

    @classmethod
    def sweep_case(cls, i, tier):
        """(knobs, ops) of sweep case i."""
        raise NotImplementedError

    def __init__(self, ctx):
        self.ctx = ctx

    def apply(self, op):
        raise NotImplementedError

    def after_op(self, op):
        """Invariants evaluated after every op (default: none)."""

    def finish(self):
        pass


def _short_tb(e):
    tb = traceback.extract_tb(e.__traceback__)
    frames = ['%s:%d:%s' % (os.path.basename(f.filename), f.lineno, f.name) for f in tb[-4:]]
    return '%s: %s [%s]' % (type(e).__name__, str(e)[:200], ' < '.join(reversed(frames)))


def execute(machine_cls, seed, knobs, ops, max_ops=None, realfs_root=None):
    """Execute one run.  Returns a plain-dict record."""
    SEAMS.install()
    SCHED.install()
    leaked = GLOBALS.reset()
    from . import fresh
    # (taken once per process, before the run's hash sequence starts: it allocates objects)
    fresh_before = fresh.pristine() if realfs_root is None else None
    SCHED.reseed(seeds.H(seed, 'hash'))
    ctx = Ctx(seed, knobs, realfs_root)
    if leaked:
        ctx.stats['process_globals_restored'] += leaked
    SEAMS.fs = ctx.fs
    rec = {'outcome': 'ok', 'check': None, 'msg': None, 'key': None, 'op_index': None}
    m = None
    i = -1
    try:
        m = machine_cls(ctx)
        for i, op in enumerate(ops):
            if max_ops is not None and i >= max_ops:
                break
            m.apply(op)
            m.after_op(op)
        i = len(ops)
        m.finish()
        if fresh_before is not None and seed % 10 < 3:
            # O0: objects built from scratch after this history are what they are before any
            SEAMS.fs = None
            fresh_after = fresh.digest()
            ctx.probes['fresh_objects_compared'] += 1
            if fresh_after != fresh_before:
                raise Violation('O0.fresh', 'objects built from scratch after this history differ '
                                'from objects built before it: %s'
                                % fresh.difference(fresh_before, fresh_after))
    except Violation as v:
        rec.update(outcome='violation', check=v.check, msg=v.msg, key=v.key, op_index=i)
    except HarnessError as e:
        rec.update(outcome='harness', msg=_short_tb(e), op_index=i)
    except (SimCrash, SimBudgetExceeded) as e:
        # machines must catch these themselves; reaching here is a harness bug
        rec.update(outcome='harness', msg='uncaught ' + _short_tb(e), op_index=i)
    except Exception as e:
        tb = traceback.extract_tb(e.__traceback__)
        repo = os.path.realpath(os.environ.get('VERIF_REPO', '/repo')) + os.sep
        if tb and os.path.realpath(tb[-1].filename).startswith(repo):
            # raised inside the library, in a call the machine did not expect to fail (it wraps
            # the calls it knows may be refused): the operation failed, not the harness
            rec.update(outcome='violation', check='EXC', key='-', op_index=i,
                       msg='the library raised %s' % _short_tb(e))
        else:
            rec.update(outcome='harness', msg='machine raised ' + _short_tb(e), op_index=i)
    finally:
        SEAMS.fs = None
    ctx.digest.add('end', rec['outcome'], rec['check'])
    rec['digest'] = ctx.digest.hex()
    rec['io_digest'] = ctx.fs.trace_digest()
    rec['io_steps'] = ctx.fs.step
    rec['steps_by_class'] = dict(ctx.fs.steps_by_class)
    rec['faults_fired'] = [f[0] for f in ctx.fs.fired]
    rec['stats'] = dict(ctx.stats)
    rec['probes'] = dict(ctx.probes)
    rec['fingerprint'] = seeds.H(tuple(ctx.fp)) if ctx.fp else 0
    rec['nontrivial'] = ctx.state_changes >= 2
    rec['hash_allocs'] = SCHED.allocated
    return rec


# ------------------------------------------------------------------------------ shrinking


def shrink(machine_cls, seed, knobs, ops, check, budget_s=60.0, max_tries=400):
    """ddmin over the op list, then per-op simplification, keeping the same failing check id."""
    t0 = time.time()
    tries = [0]

    def fails(cand_ops, cand_knobs=knobs):
        if tries[0] >= max_tries or time.time() - t0 > budget_s:
            return False
        tries[0] += 1
        r = execute(machine_cls, seed, cand_knobs, cand_ops)
        return r['outcome'] == 'violation' and r['check'] == check

    cur = list(ops)
    # 1. truncate after the failing op is implicit (runs stop there); drop chunks
    n = 2
    while len(cur) >= 2:
        chunk = max(1, len(cur) // n)
        reduced = False
        start = 0
        while start < len(cur):
            cand = cur[:start] + cur[start + chunk:]
            if cand and fails(cand):
                cur = cand
                reduced = True
            else:
                start += chunk
        if not reduced:
            if chunk == 1:
                break
            n = min(len(cur), n * 2)
        else:
            n = max(2, n - 1)
    # 2. remove faults, then lower integer choices
    for idx in range(len(cur)):
        op = cur[idx]
        if len(op) > 2 and op[2] is not None:
            cand = cur[:idx] + [[op[0], op[1], None]] + cur[idx + 1:]
            if fails(cand):
                cur = cand
    for idx in range(len(cur)):
        op = cur[idx]
        ch = list(op[1])
        for j in range(len(ch)):
            if isinstance(ch[j], int) and ch[j] > 0:
                for v in (0, 1, ch[j] // 2):
                    if v >= ch[j]:
                        continue
                    ch2 = list(ch)
                    ch2[j] = v
                    cand = cur[:idx] + [[op[0], ch2] + list(op[2:])] + cur[idx + 1:]
                    if fails(cand):
                        ch = ch2
                        cur = cand
                        break
    # 3. simplify knobs
    kn = dict(knobs)
    if kn.get('bufsize') is not None:
        k2 = dict(kn)
        k2['bufsize'] = None
        if fails(cur, k2):
            kn = k2
    return cur, kn, tries[0]


def make_replay(prop, machine_name, seed, knobs, ops, rec, hashseed, master=None, run=None):
    return {
        'property': prop, 'machine': machine_name, 'seed': seed, 'pythonhashseed': hashseed,
        'master_seed': master, 'run_index': run,
        'knobs': knobs, 'ops': ops,
        'check': rec['check'], 'message': rec['msg'], 'key': rec['key'],
        'op_index': rec['op_index'],
        'event_digest': rec['digest'], 'io_trace_digest': rec['io_digest'],
    }
