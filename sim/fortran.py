"""Independent (of /repo) Fortran-style number writer / reader and field-digit comparisons.

Nothing here imports PyTOUGH: it is the harness's own idea of what a fixed-width Fortran
record looks like, used for the "other party" that writes files and for tolerance oracles.
"""
import math
from decimal import Decimal


def fE(x, w, d, style='E'):
    """Fortran Ew.d rendering of x: 0.ddddE+ee (3-digit exponents drop the letter).
    style: 'E', 'D', 'e' (lower case), '1E' (1PE: d.dddE+ee)."""
    if x is None:
        return ' ' * w
    if x == 0:
        mant, ex = '0' * d, 0
        neg = False
    else:
        neg = x < 0
        dx = Decimal(repr(abs(float(x))))
        ex = dx.adjusted() + 1                  # 0.dddd * 10**ex
        q = (dx.scaleb(-ex)).quantize(Decimal(1).scaleb(-d))
        if q >= 1:
            ex += 1
            q = (dx.scaleb(-ex)).quantize(Decimal(1).scaleb(-d))
        mant = str(q)[2:2 + d].ljust(d, '0')
    if style == '1E':
        # d.ddd form: shift the point one place
        lead, rest = mant[0], mant[1:]
        e1 = ex - 1 if x != 0 else 0
        body = '%s.%s' % (lead, rest)
        letter, ee = 'E', e1
    else:
        body = '0.' + mant
        letter, ee = ('D' if style == 'D' else ('e' if style == 'e' else 'E')), ex
    if abs(ee) >= 100:
        exps = '%+04d' % ee                      # letter dropped
    else:
        exps = '%s%+03d' % (letter, ee)
    s = ('-' if neg else '') + body + exps
    if len(s) > w and s.startswith('0.'):
        s = s[1:]                                # Fortran may drop the leading zero
    if len(s) > w and s.startswith('-0.'):
        s = '-' + s[2:]
    if len(s) > w:
        return '*' * w
    return s.rjust(w)


def fF(x, w, d, lead_zero=True):
    if x is None:
        return ' ' * w
    s = '%.*f' % (d, x)
    if not lead_zero:
        if s.startswith('0.'):
            s = s[1:]
        elif s.startswith('-0.'):
            s = '-' + s[2:]
    if len(s) > w:
        return '*' * w
    return s.rjust(w)


def fI(i, w):
    if i is None:
        return ' ' * w
    s = '%d' % i
    return s.rjust(w) if len(s) <= w else '*' * w


def fA(s, w):
    if s is None:
        return ' ' * w
    return ('%-*s' % (w, s))[:w]


def fread(s):
    """Value of a Fortran-printed real; None for a blank field; nan for garbage."""
    t = s.replace(' ', '')
    if not t:
        return None
    t = t.upper().replace('D', 'E')
    try:
        return float(t)
    except ValueError:
        pass
    # exponent letter dropped: sign inside the number (not first char) starts the exponent
    for k in range(len(t) - 1, 0, -1):
        if t[k] in '+-' and t[k - 1] not in 'E':
            try:
                return float(t[:k] + 'E' + t[k:])
            except ValueError:
                return float('nan')
    return float('nan')


def iread(s):
    t = s.replace(' ', '')
    if not t:
        return None
    try:
        return int(t)
    except ValueError:
        return None


def close_e(a, b, p, slack=1.02):
    """a, b equal to the digits an E field with p decimals carries (d.ddd..e form, Python %e)."""
    if a is None or b is None:
        return a is None and b is None
    a, b = float(a), float(b)
    if a == b:
        return True
    if a != a or b != b or math.isinf(a) or math.isinf(b):
        return False
    m = max(abs(a), abs(b))
    e = math.floor(math.log10(m))
    tol = 0.5 * 10.0 ** (e - p) * slack + 4 * 2.3e-16 * m      # + a few ulps of the magnitude
    return abs(a - b) <= tol


def close_f(a, b, d, slack=1.02):
    """Equal to d decimals of an F field."""
    if a is None or b is None:
        return a is None and b is None
    return abs(float(a) - float(b)) <= 0.5 * 10.0 ** (-d) * slack + 1e-12 * max(1.0, abs(float(a)))
