"""Shared machinery of the `store` machines (C01, C03, C13): a SimFS project directory used by
writer/reader pairs, with a reference map of acknowledged writes (DESIGN 3, C01 "System").

Durability reading: a write that returned normally is acknowledged and must read back, in a
fresh object, as what was written, until one of its files is overwritten.
"""
import copy
import errno

from ..engine import Machine, Violation, _short_tb
from ..simfs import SimCrash, SimBudgetExceeded, ROOT, FAULT_KINDS

BUFSIZES = (1, 16, 256, 8192, None)


def swarm_knobs(rng, tier, extra=None):
    """Per-run configuration (swarm style).  40 % of runs are fault free."""
    k = {}
    k['bufsize'] = rng.choice(BUFSIZES)
    r = rng.random()
    k['fault_rate'] = 0.0 if r < 0.4 else (0.15 if r < 0.75 else 0.4)
    kinds = [f for f in FAULT_KINDS if rng.random() < 0.6]
    k['fault_kinds'] = kinds or [rng.choice(FAULT_KINDS)]
    k['tier'] = tier
    k['watch_objects'] = rng.random() < 0.3
    if extra:
        k.update(extra)
    return k


def gen_fault(rng, knobs, for_write):
    """A fault spec [kind, eligible-step choice, short-write permille] or None."""
    if rng.random() >= knobs['fault_rate']:
        return None
    kinds = [f for f in knobs['fault_kinds']
             if f in (('ENOSPC', 'EMFILE', 'EACCES', 'CRASH') if for_write
                      else ('EIO', 'EMFILE', 'CRASH'))]
    if not kinds:
        return None
    kind = rng.choice(kinds)
    r = rng.random()
    # bias: first eligible step (right after / at the open), last one (the close), else anywhere
    idx = 0 if r < 0.15 else (10 ** 9 if r < 0.3 else rng.randrange(10 ** 6))
    return [kind, idx, rng.randrange(0, 1001)]


class StoreMachine(Machine):
    NAMES = ('a', 'b', 'c')          # logical file names in the project directory
    SLOTS = 3
    STEP_BUDGET = 400000
    KEEP_AFTER_FAILED_OPEN = False

    def __init__(self, ctx):
        Machine.__init__(self, ctx)
        self.objs = {}
        self.ref = {}                # name -> {'state': 'ack'|'torn', 'snap':..., 'cfg':...}
        self.faulted = False

    # ---- objects do not change behind the caller's back
    def after_op(self, op):
        """Every op of this machine works on (at most) one in-memory object.  In watched runs
        the state of every live object is recorded after every op; if an op changed two distinct
        objects, a read, write or edit of one model reached into another one."""
        if not self.ctx.knobs.get('watch_objects'):
            return
        from ..globalseam import _same
        seen = getattr(self, '_watch', {})
        now = {}
        changed = []
        for slot, obj in sorted(self.objs.items()):
            if obj is None:
                continue
            try:
                sn = self.snap(obj)
            except Exception:
                continue                      # a torn in-memory object (interrupted read)
            now[slot] = (obj, sn)
            old = seen.get(slot)
            if old is not None and old[0] is obj and not _same(old[1], sn):
                if not any(o is obj for o in changed):
                    changed.append(obj)
        self._watch = now
        self.ctx.probes['objects_watched'] += len(now)
        if len(changed) > 1:
            raise Violation('O5', 'op %s changed %d distinct in-memory objects; it works on one'
                            % (op[0], len(changed)))

    # ---- to be provided by subclasses
    def files_of(self, name, cfg):
        raise NotImplementedError

    def snap(self, obj):
        raise NotImplementedError

    def write(self, obj, name, cfg):
        raise NotImplementedError

    def read(self, name, cfg):
        raise NotImplementedError

    def compare(self, want, got, cfg, what):
        raise NotImplementedError

    # ---- helpers
    def path(self, fname):
        return ROOT + fname

    def pick_slot(self, c):
        """Choice -> a slot that holds an object (any sub-list of ops stays meaningful)."""
        live = sorted(self.objs)
        return live[c % len(live)] if live else c % self.SLOTS

    def pick_name(self, c):
        """Choice -> a name that has been written (or put there by another party)."""
        have = sorted(self.ref)
        return have[c % len(have)] if have else self.NAMES[c % len(self.NAMES)]

    def io(self, fn, fault, dry, what):
        """Run one repo I/O operation under an optional fault.  Returns (status, result)."""
        ctx, fs = self.ctx, self.ctx.fs
        fs.begin_op(self.STEP_BUDGET)
        if fault is not None:
            kind, idx, permille = fault
            with ctx.scratch_fs() as s:
                try:
                    dry()
                except (Exception, SimBudgetExceeded, SimCrash):
                    pass          # the real run below meets (and reports) the same thing
                n = s.eligible_count(kind)
            fs = ctx.fs
            fs.begin_op(self.STEP_BUDGET)
            if n == 0:
                ctx.stats['fault_not_eligible'] += 1
            else:
                fs.arm(kind, min(idx, n - 1) if idx >= 10 ** 9 else idx % n, permille / 1000.0)
                ctx.stats['fault_armed'] += 1
        nf = len(fs.fired)
        status, res = 'ok', None
        try:
            res = fn()
        except SimCrash:
            status = 'crash'
        except SimBudgetExceeded as e:
            raise Violation('LIVE', '%s did not finish within its I/O step budget: %s' % (what, e))
        except OSError as e:
            if len(fs.fired) > nf and e.errno in (errno.ENOSPC, errno.EIO, errno.EMFILE,
                                                  errno.EACCES):
                status = 'ioerr'
            else:
                raise Violation('EXC', '%s raised %s' % (what, _short_tb(e)))
        except Violation:
            raise
        except Exception as e:
            if len(fs.fired) > nf:
                raise Violation('EXC-F', '%s raised a non-I/O error after an injected fault: %s'
                                % (what, _short_tb(e)))
            raise Violation('EXC', '%s raised %s' % (what, _short_tb(e)), key=self.exc_key(what, e))
        finally:
            if fs.disarm() is not None:
                ctx.stats['fault_armed_not_fired'] += 1
        fired = len(fs.fired) > nf
        if fired:
            self.faulted = True
            ctx.stats['fault_fired_' + fs.fired[-1][0]] += 1
            if status == 'ok':
                ctx.probes['fault_fired_but_op_returned'] += 1
        if status == 'crash':
            self.on_crash()
        return status, res

    def exc_key(self, what, e):
        return '-'

    def o6_cfg(self, cfg):
        """The configuration under which two in-memory snapshots are compared in full."""
        return cfg

    def o6_view(self, snap):
        """The part of a snapshot that is the caller's model (not the writer's bookkeeping)."""
        return snap

    def after_write(self, name, cfg, want):
        """Hook: independent scan of the files an acknowledged write produced."""

    def on_crash(self):
        """Process memory is gone; only the directory image survives."""
        self.objs = {}
        self.ctx.fs.restart()
        self.ctx.probes['crash_restart'] += 1

    # ---- the generic ops
    def do_write(self, slot, name, cfg, fault):
        ctx = self.ctx
        obj = self.objs.get(slot)
        if obj is None:
            ctx.stats['skip_W_noobj'] += 1
            return
        files = self.files_of(name, cfg)
        want = self.snap(obj)
        before = dict(ctx.fs.files)
        step_before = ctx.fs.step
        status, _ = self.io(lambda: self.write(obj, name, cfg), fault,
                            lambda: self.write(copy.deepcopy(obj), name, cfg), 'write')
        ctx.stats['W_' + status] += 1
        ctx.fp.append(('W', status, self.cfg_fp(cfg)))
        # any other acknowledged write that shares a file with this one is superseded
        for other, r in list(self.ref.items()):
            if other != name and r['state'] == 'ack' and set(r['files']) & set(files):
                touched = [f for f in r['files'] if ctx.fs.files.get(f) != before.get(f)]
                if touched:
                    r['state'] = 'superseded'
        if status == 'ok':
            self.after_write(name, cfg, want)
            self.ref[name] = {'state': 'ack', 'snap': want, 'cfg': cfg, 'files': files}
            if ctx.knobs.get('watch_objects') and self.objs.get(slot) is obj:
                # O7: writing is not editing - the model in memory is what it was (a second
                # write of the same object must give the same file)
                from ..globalseam import _same
                now = self.o6_view(self.snap(obj))
                w6 = self.o6_view(want)
                if not _same(w6, now):
                    try:
                        self.compare(w6, now, self.o6_cfg(cfg), 'O7: the write of %r changed the '
                                     'in-memory model' % name)
                    except Violation as v:
                        raise Violation('O7', v.msg)
                    ctx.probes['O7_snapshot_differs_but_compare_equal'] += 1
                ctx.probes['O7_object_checked_after_write'] += 1
            if ctx.fs.fired and ctx.fs.fired[-1][3] > step_before:
                # O3: a fault fired inside this write and it returned normally all the same: the
                # acknowledgement must be honest -- read it back at once, fault free
                ctx.probes['O3_fault_inside_acknowledged_write'] += 1
                st, obj = self.io(lambda: self.read(name, cfg), None, None, 'read after a write '
                                  'that returned normally despite an injected fault')
                self.compare(want, self.snap(obj), cfg, 'O3: write of %r returned normally although '
                             'a %s fault fired inside it' % (name, ctx.fs.fired[-1][0]))
            ctx.state_changes += 1
            for f in files:
                ctx.digest.add('W', f, ctx.fs.files.get(f))
        else:
            self.ref[name] = {'state': 'torn', 'cfg': cfg, 'files': files}
            if status == 'ioerr' and self.objs.get(slot) is obj:
                # the write raised OSError: the caller still holds the model and will write it
                # again; what it holds must be what it held (O6)
                from ..globalseam import _same
                now = self.o6_view(self.snap(obj))
                want = self.o6_view(want)
                if not _same(want, now):
                    try:
                        self.compare(want, now, self.o6_cfg(cfg), 'O6: the write of %r failed with an '
                                     'injected %s and left the in-memory model changed'
                                     % (name, ctx.fs.fired[-1][0]))
                    except Violation as v:
                        raise Violation('O6', v.msg)
                    ctx.probes['O6_snapshot_differs_but_compare_equal'] += 1
                ctx.probes['O6_object_checked_after_failed_write'] += 1
            if any(ctx.fs.files.get(f) != before.get(f) for f in files):
                ctx.probes['torn_file_left'] += 1
            ctx.digest.add('W', name, status)

    def do_read(self, name, slot, fault, cfg_override=None, reuse=None):
        ctx = self.ctx
        r = self.ref.get(name)
        if r is None:
            ctx.stats['skip_R_nofile'] += 1
            return
        cfg = r['cfg']
        if r['state'] != 'ack':
            # torn or superseded files: nothing is promised but termination
            ctx.fs.begin_op(self.STEP_BUDGET)
            try:
                self.read(name, cfg)
                ctx.probes['torn_read_ok'] += 1
            except SimBudgetExceeded:
                # observed on the unchanged tree (t2incon.read with num_variables spins at EOF of
                # a truncated file); the round-trip properties promise nothing about torn files,
                # so this is a probe, not a violation
                ctx.probes['torn_read_spins_at_eof'] += 1
            except Exception:
                ctx.probes['torn_read_raised'] += 1
            ctx.digest.add('R', name, 'torn')
            return
        if reuse is not None:
            # a long-lived object that held something else is re-used as the reader
            self.ctx.probes['read_into_existing_object'] += 1
            status, obj = self.io(lambda: self.read(name, cfg, reuse), fault,
                                  lambda: self.read(name, cfg, copy.deepcopy(reuse)), 'read')
        else:
            status, obj = self.io(lambda: self.read(name, cfg), fault,
                                  lambda: self.read(name, cfg), 'read')
        ctx.stats['R_' + status] += 1
        ctx.fp.append(('R', status, self.cfg_fp(cfg)))
        if status == 'ok':
            got = self.snap(obj)
            self.compare(r['snap'], got, cfg, 'read-back of acknowledged write %r' % name)
            if self.faulted:
                ctx.probes['O4_checked_after_fault'] += 1
            ctx.state_changes += 1
            ctx.digest.add('R', name, repr(got))
            if slot is not None:
                self.objs[slot] = obj
        else:
            if reuse is not None and status == 'ioerr' and ctx.fs.fired and \
                    ctx.fs.fired[-1][0] in ('EMFILE', 'EACCES') and self.KEEP_AFTER_FAILED_OPEN:
                # the file could not even be opened: the caller still holds an object (as it
                # was, or emptied) and goes on using it; whatever it writes from it later must
                # read back as what the object then holds
                ctx.probes['reused_object_kept_after_failed_open'] += 1
            elif reuse is not None:
                # a read that failed part-way leaves the re-used object half-filled: drop it
                for k in [k for k, o in self.objs.items() if o is reuse]:
                    del self.objs[k]
            ctx.digest.add('R', name, status)

    def do_cycle(self, name):
        """R -> W -> R -> W under scratch names; O2 fixpoint checks, fault free."""
        ctx = self.ctx
        r = self.ref.get(name)
        if r is None or r['state'] != 'ack':
            ctx.stats['skip_CYCLE'] += 1
            return
        cfg = r['cfg']
        st, o1 = self.io(lambda: self.read(name, cfg), None, None, 'cycle read 1')
        self.compare(r['snap'], self.snap(o1), cfg, 'cycle read 1 of %r' % name)
        st, _ = self.io(lambda: self.write(o1, 'cyc1', cfg), None, None, 'cycle write 2')
        if not r.get('foreign'):
            # a file written by another party is only promised to reach a fixpoint
            self.fix_compare(self.files_of(name, cfg), self.files_of('cyc1', cfg), cfg, first=True)
        st, o2 = self.io(lambda: self.read('cyc1', cfg), None, None, 'cycle read 2')
        self.compare(r['snap'], self.snap(o2), cfg, 'cycle read 2 of %r' % name)
        st, _ = self.io(lambda: self.write(o2, 'cyc2', cfg), None, None, 'cycle write 3')
        self.fix_compare(self.files_of('cyc1', cfg), self.files_of('cyc2', cfg), cfg, first=False)
        for f in self.files_of('cyc1', cfg) + self.files_of('cyc2', cfg):
            ctx.fs.files.pop(f, None)
        ctx.stats['CYCLE_ok'] += 1
        ctx.state_changes += 1
        ctx.fp.append(('C', self.cfg_fp(cfg)))
        ctx.digest.add('C', name)

    STRIP_FIRST = False   # C01: first re-write equal only up to trailing blanks
    EMPTY_IS_ABSENT = False

    def fix_compare(self, files1, files2, cfg, first):
        fs = self.ctx.fs
        for f1, f2 in zip(files1, files2):
            b1, b2 = fs.files.get(f1), fs.files.get(f2)
            if self.EMPTY_IS_ABSENT and not b1 and not b2:
                continue      # a companion file with nothing in it carries nothing
            if b1 is None or b2 is None:
                raise Violation('O2', 'file %s / %s missing after re-write' % (f1, f2))
            if first and self.STRIP_FIRST and not f1.endswith(('MESHA', 'MESHB')):
                n1 = [l.rstrip() for l in b1.split(b'\n')]
                n2 = [l.rstrip() for l in b2.split(b'\n')]
                same = n1 == n2
            else:
                same = b1 == b2
            if not same:
                l1, l2 = b1.split(b'\n'), b2.split(b'\n')
                k = next((i for i, (x, y) in enumerate(zip(l1, l2)) if x != y),
                         min(len(l1), len(l2)))
                raise Violation('O2', 're-written file %s differs from %s at line %d: %r vs %r'
                                % (f2, f1, k + 1, l1[k:k + 1], l2[k:k + 1]),
                                key=self.o2_key(cfg))

    def o2_key(self, cfg):
        return '-'

    def cfg_fp(self, cfg):
        return repr(cfg)

    def do_crash(self):
        """Process death between operations."""
        self.ctx.fs.crash()
        self.on_crash()
        self.ctx.digest.add('CRASH')
        self.ctx.fp.append(('X',))
