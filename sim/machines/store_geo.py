"""C03 — MULgraph geometry file round trip (machine `store`, component mulgrid)."""
import random

from ..engine import Violation, _short_tb
from ..seeds import H
from ..simfs import HarnessError
from .. import fortran as F
from .store_base import StoreMachine, swarm_knobs, gen_fault
from . import geo_build
from .edit_geo import GeoMachine, my_name_lists, mesh_problems, edge_connected, Refused

EDITS = ('REFINE', 'SPLIT', 'DECOMPOSE', 'RENAME_COL', 'ROTATE', 'TRANSLATE', 'SET_SURFACE',
         'ADD_WELL', 'DEL_WELL', 'SNAP', 'REFINE_LAYERS', 'REDUCE', 'ADD_COL', 'DEL_COL',
         'SET_OPTION', 'SET_OPTION', 'COPY_LAYERS')
FEET = 0.3048


def snap_geo(geo):
    d = {}
    d['header'] = {
        'convention': geo.convention, 'atmosphere_type': geo.atmosphere_type,
        'atmosphere_volume': geo.atmosphere_volume,
        'atmosphere_connection': geo.atmosphere_connection, 'unit_type': geo.unit_type,
        'permeability_angle': geo.permeability_angle,
        'block_order': geo.block_order, 'gdcx': geo.gdcx, 'gdcy': geo.gdcy}
    d['scale'] = geo.unit_scale
    d['nodes'] = [(n.name, float(n.pos[0]), float(n.pos[1])) for n in geo.nodelist]
    d['columns'] = [(c.name, tuple(n.name for n in c.node), int(bool(c.centre_specified)),
                     (float(c.centre[0]), float(c.centre[1])) if c.centre_specified else None)
                    for c in geo.columnlist]
    d['connections'] = [(c.column[0].name, c.column[1].name) for c in geo.connectionlist]
    d['layers'] = [(l.name, float(l.bottom), float(l.centre)) for l in geo.layerlist]
    d['surface'] = [(c.name, float(c.surface)) for c in geo.columnlist if not c.default_surface]
    d['wells'] = [(w.name, tuple(tuple(float(x) for x in p) for p in w.pos))
                  for w in geo.welllist]
    d['block_names'] = list(geo.block_name_list)
    d['connection_names'] = list(geo.block_connection_name_list)
    return d


def foreign_geo(sub, nx, ny, nz, conv, atm, flags):
    """A MULgraph file as a Fortran program would write it, with the content it carries."""
    rng = random.Random(H('foreign-geo', sub))
    lz = bool(flags & 1)              # F10.2 with a leading zero or not
    left = bool(flags & 2)            # names left-justified in their 3 columns
    L = [3, 2, 3, 3][conv]
    LL = [2, 3, 2, 2][conv]
    def nm(i):
        if conv in (0, 3):
            s = ''
            while i > 0:
                i -= 1
                s = 'abcdefghijklmnopqrstuvwxyz'[i % 26] + s
                i //= 26
            return s
        return str(i)
    def f(x, w=10, d=2):
        return F.fF(x, w, d, lead_zero=lz)
    def a3(s):
        return s.ljust(3) if left else s.rjust(L).ljust(3)
    def r2(x, d=2):
        return float('%.*f' % (d, x))
    dx = [rng.choice(geo_build.SPACINGS) for _ in range(nx)]
    dy = [rng.choice(geo_build.SPACINGS) for _ in range(ny)]
    dz = [rng.choice(geo_build.THICK) for _ in range(nz)]
    x0, y0, z0 = rng.choice((0.0, -1234.5, 2.7e6)), rng.choice((0.0, 77.25)), \
        rng.choice((0.0, 100.0, -50.5))
    xs = [x0]
    for d in dx:
        xs.append(xs[-1] + d)
    ys = [y0]
    for d in dy:
        ys.append(ys[-1] + d)
    angle = rng.choice((0.0, 30.0, -12.5))
    avol, acon = rng.choice((1.0e25, 1.0e20)), rng.choice((1.0e-6, 1.0e-3))
    order = rng.choice((None, 0, 1))
    lines = []
    lines.append('GENER%d%d%s%s%s%s%s%s%s%s' % (
        conv, atm, F.fE(avol, 10, 2), F.fE(acon, 10, 2), '     ', ' ' * 10, ' ' * 10, ' ',
        f(angle), '  ' if order is None else '%2d' % order))
    nodes, k = [], 1
    lines.append('VERTICES')
    for y in ys:
        for x in xs:
            nodes.append((nm(k).rjust(L), r2(x), r2(y)))
            lines.append(a3(nm(k)) + f(x) + f(y))
            k += 1
    lines.append('')
    lines.append('GRID')
    cols, k = [], 1
    nxv = nx + 1
    for j in range(ny):
        for i in range(nx):
            vs = [j * nxv + i + 1, j * nxv + i + 2, (j + 1) * nxv + i + 2, (j + 1) * nxv + i + 1]
            cols.append((nm(k).rjust(L), tuple(nm(v).rjust(L) for v in vs)))
            lines.append(a3(nm(k)) + '0' + '%2d' % 4)
            for v in vs:
                lines.append(a3(nm(v)))
            k += 1
    lines.append('')
    lines.append('CONNECTIONS')
    cons = []
    for j in range(ny):
        for i in range(nx - 1):
            a, b = j * nx + i + 1, j * nx + i + 2
            cons.append((nm(a).rjust(L), nm(b).rjust(L)))
            lines.append(a3(nm(a)) + a3(nm(b)))
    for i in range(nx):
        for j in range(ny - 1):
            a, b = j * nx + i + 1, (j + 1) * nx + i + 1
            cons.append((nm(a).rjust(L), nm(b).rjust(L)))
            lines.append(a3(nm(a)) + a3(nm(b)))
    lines.append('')
    lines.append('LAYERS')
    atmname = [' 0', 'atm', 'at', ' 0'][conv]
    layers = [(atmname.rjust(LL), z0, z0)]
    lines.append(atmname.rjust(LL).ljust(3) + f(z0) + f(z0))
    z, num = z0, 0
    for t in dz:
        z -= t
        num += 1
        lname = (str(num) if conv == 0 else nm(num)).rjust(LL)
        if flags & 32 and num % 2 == 0:
            # centre field left blank, as MULgraph itself does: the reader takes the elevation
            # midway between this bottom and the one above (as the file carries them)
            layers.append((lname, r2(z), 0.5 * (r2(z) + layers[-1][1])))
            lines.append(lname.ljust(3) + f(z))
        else:
            layers.append((lname, r2(z), r2(z + 0.5 * t)))
            lines.append(lname.ljust(3) + f(z) + f(z + 0.5 * t))
    lines.append('')
    surface = []
    if flags & 4 and nz >= 2:
        lines.append('SURFA')
        for name, _ in cols:
            if rng.random() < 0.5:
                lay = layers[rng.randrange(1, len(layers))]
                s = r2(lay[1] + rng.choice((0.5, 0.25, 1.0)) * (lay[2] - lay[1]) * 2)
                if s >= z0:
                    continue
                surface.append((name, s))
                lines.append(name.ljust(3) + f(s))
        lines.append('')
    wells = []
    if flags & 8:
        lines.append('WELLS')
        for w in range(1 + rng.randrange(3)):
            wname = 'W%4d' % (w + 1) if rng.random() < .5 else 'w%-4d' % (w + 1)
            npos = rng.randint(2, 6)
            pos = []
            for p in range(npos):
                xyz = (r2(xs[0] + 1.5 * p, 1), r2(ys[0] + 2.0, 1),
                       r2(z0 - p * sum(dz) / (npos - 1.0), 1))
                pos.append(xyz)
                lines.append(wname + ''.join(F.fF(v, 10, 1, lead_zero=lz) for v in xyz))
            wells.append((wname, tuple(pos)))
        lines.append('')
    lines.append('')
    data = ('\n'.join(lines) + '\n').encode()
    snap = {
        'header': {'convention': conv, 'atmosphere_type': atm, 'atmosphere_volume': avol,
                   'atmosphere_connection': acon, 'unit_type': '', 'permeability_angle': angle,
                   'block_order': {None: None, 0: 'layer_column', 1: 'dmplex'}[order],
                   'gdcx': None, 'gdcy': None},
        'scale': 1.0, 'nodes': nodes,
        'columns': [(n, vs, 0, None) for n, vs in cols], 'connections': cons, 'layers': layers,
        'surface': surface, 'wells': wells, 'block_names': None, 'connection_names': None}
    return data, snap


class GeoStoreMachine(StoreMachine):
    PROP = 'C03'
    OPS = ('NEW', 'EDIT', 'W', 'R', 'CYCLE', 'FOREIGN', 'SHIPPED', 'CRASH')
    STEP_BUDGET = 3000000

    @classmethod
    def knobs(cls, rng, tier):
        k = swarm_knobs(rng, tier)
        k['size'] = rng.choice((1, 2, 3, 3, 4, 6))
        k['source'] = 'rect'
        w = {op: (rng.random() if rng.random() < 0.85 else 0.0) for op in cls.OPS}
        w['W'] = max(w['W'], 0.5)
        w['R'] = max(w['R'], 0.5)
        w['NEW'] = max(w['NEW'], 0.2)
        w['SHIPPED'] *= 0.15
        w['CRASH'] = 0.0 if k['fault_rate'] == 0.0 else w['CRASH'] * 0.3
        k['weights'] = w
        k['nops'] = rng.randint(3, 14)
        return k

    @classmethod
    def generate(cls, rng, knobs):
        R = rng.randrange
        big = 10 ** 6
        s = knobs['size']
        def new():
            return [R(3), R(big), R(big), 1 + R(s), 1 + R(s), 1 + R(4), R(3), R(4), R(64)]
        ops = [['NEW', new(), None]]
        kinds = [o for o in cls.OPS if knobs['weights'][o] > 0]
        wts = [knobs['weights'][o] for o in kinds]
        for _ in range(knobs['nops']):
            kd = rng.choices(kinds, wts)[0]
            if kd in ('NEW', 'FOREIGN'):
                ch = new()
            elif kd == 'EDIT':
                ch = [R(3), R(len(EDITS)), R(big), R(big), R(big), R(big)]
            elif kd == 'W':
                ch = [R(3), R(3)]
            elif kd == 'R':
                ch = [R(3), R(8), R(6)]
            elif kd == 'SHIPPED':
                ch = [R(3), R(16), R(big)]
            else:
                ch = [R(3)]
            fault = gen_fault(rng, knobs, kd == 'W') if kd in ('W', 'R') else None
            ops.append([kd, ch, fault])
        return ops

    def __init__(self, ctx):
        StoreMachine.__init__(self, ctx)
        import mulgrids
        self.mg = mulgrids
        self.editor = GeoMachine(ctx)

    # ---- StoreMachine interface
    def files_of(self, name, cfg):
        return [name + '.geo']

    def snap(self, geo):
        return snap_geo(geo)

    def write(self, obj, name, cfg):
        obj.write(self.path(name + '.geo'))
        obj.filename = ''

    def read(self, name, cfg, reuse=None):
        if reuse is not None:
            reuse.read(self.path(name + '.geo'))
            reuse.filename = ''
            return reuse
        g = self.mg.mulgrid(self.path(name + '.geo'))
        g.filename = ''
        return g

    def compare(self, want, got, cfg, what):
        def bad(sub, msg):
            raise Violation('O1.' + sub, '%s: %s' % (what, msg), key=self.o1_key(sub, want))
        sc = want['scale']                       # file units per metre
        def c2(a, b, d=2):                       # equal to d decimals in file units
            if a is None or b is None:
                return a is None and b is None
            return abs(a / sc - b / sc) <= 0.5 * 10.0 ** (-d) * 1.02 + 1e-9 * max(1., abs(a / sc))
        wh, gh = want['header'], got['header']
        for k in ('convention', 'atmosphere_type', 'unit_type', 'block_order'):
            if wh[k] != gh[k] and not (k == 'block_order' and wh[k] is None and
                                       gh[k] in (None,)):
                bad('header', 'header option %s %r read back as %r' % (k, wh[k], gh[k]))
        for k in ('atmosphere_volume', 'atmosphere_connection'):
            if not F.close_e(wh[k], gh[k], 2):
                bad('header', 'header %s %r read back as %r' % (k, wh[k], gh[k]))
        if not F.close_f(wh['permeability_angle'], gh['permeability_angle'], 2):
            bad('header', 'permeability angle %r read back as %r'
                % (wh['permeability_angle'], gh['permeability_angle']))
        if abs(want['scale'] - got['scale']) > 1e-12:
            bad('header', 'unit scale %r read back as %r' % (want['scale'], got['scale']))
        for sec in ('nodes', 'columns', 'connections', 'layers', 'surface', 'wells'):
            if [x[0] for x in want[sec]] != [x[0] for x in got[sec]]:
                a, b = [x[0] for x in want[sec]], [x[0] for x in got[sec]]
                k = next((i for i, (x, y) in enumerate(zip(a, b)) if x != y), min(len(a), len(b)))
                bad(sec, '%s names/order differ at %d: %r vs %r (%d vs %d)'
                    % (sec, k, a[k:k + 3], b[k:k + 3], len(a), len(b)))
        for w, g in zip(want['nodes'], got['nodes']):
            if not (c2(w[1], g[1]) and c2(w[2], g[2])):
                bad('nodes', 'node %r at %r read back at %r' % (w[0], w[1:], g[1:]))
        for w, g in zip(want['columns'], got['columns']):
            if w[1] != g[1]:
                bad('columns', 'column %r nodes %r read back as %r' % (w[0], w[1], g[1]))
            if w[2] != g[2]:
                bad('columns', 'column %r centre_specified %r read back as %r' % (w[0], w[2], g[2]))
            if w[3] is not None and not (c2(w[3][0], g[3][0]) and c2(w[3][1], g[3][1])):
                bad('columns', 'column %r specified centre %r read back as %r' % (w[0], w[3], g[3]))
        if want['connections'] != got['connections']:
            bad('connections', 'connections differ')
        for w, g in zip(want['layers'], got['layers']):
            if not (c2(w[1], g[1]) and c2(w[2], g[2])):
                bad('layers', 'layer %r (bottom, centre) %r read back as %r' % (w[0], w[1:], g[1:]))
        for w, g in zip(want['surface'], got['surface']):
            if not c2(w[1], g[1]):
                bad('surface', 'column %r surface %r read back as %r' % (w[0], w[1], g[1]))
        for w, g in zip(want['wells'], got['wells']):
            if len(w[1]) != len(g[1]) or not all(c2(a, b, 1) for p, q in zip(w[1], g[1])
                                                 for a, b in zip(p, q)):
                bad('wells', 'well %r track %r read back as %r' % (w[0], w[1], g[1]))
        if want['block_names'] is not None:
            if want['block_names'] != got['block_names']:
                bad('names', 'block name list differs after the round trip (%d vs %d names)'
                    % (len(want['block_names']), len(got['block_names'])))
            if want['connection_names'] != got['connection_names']:
                bad('names', 'block connection name list differs after the round trip')

    def o1_key(self, sub, want):
        return '-'

    def read_ordered(self, name, slot, order):
        """mulgrid(filename, block_order=...) must give the geometry that reading the file and
        then choosing the block order gives, and otherwise what was written."""
        ctx = self.ctx
        r = self.ref.get(name)
        if r is None or r['state'] != 'ack':
            ctx.stats['skip_R_nofile'] += 1
            return
        ctx.fs.begin_op(self.STEP_BUDGET)
        try:
            g1 = self.mg.mulgrid(self.path(name + '.geo'), block_order=order)
            g2 = self.mg.mulgrid(self.path(name + '.geo'))
            g2.block_order = order
        except Exception as e:
            if 'not supported by DMPlex ordering' in str(e):
                ctx.stats['skip_R_dmplex_refused'] += 1      # columns with more than 4 sides
                return
            raise Violation('EXC', 'mulgrid(%r, block_order=%r) raised %s'
                            % (name, order, _short_tb(e)))
        g1.filename = g2.filename = ''
        a, b = snap_geo(g1), snap_geo(g2)
        self.compare(b, a, r['cfg'], 'mulgrid(file, block_order=%r) against read + block_order '
                     'setter' % order)
        w = dict(r['snap'])
        w['header'] = dict(w['header'], block_order=order)
        w['block_names'] = None                      # the order asked for, not the one on file
        self.compare(w, a, r['cfg'], 'mulgrid(file, block_order=%r) against what was written'
                     % order)
        self.objs[slot] = g1
        ctx.probes['read_with_block_order_argument'] += 1
        ctx.state_changes += 1

    def after_write(self, name, cfg, want):
        """O-file: an independent column scan of the VERTICES / LAYERS / SURFA records of the
        written file gives the snapshot in *file units* (feet for a FEET geometry) to 2 decimals,
        and the header carries the unit."""
        data = self.ctx.fs.files.get(name + '.geo')
        lines = data.decode('utf-8', 'replace').split('\n')
        # metres per file unit, from the definition of the foot (not from the object)
        sc = 0.3048 if want['header']['unit_type'] == 'FEET ' else 1.0
        if abs(want['scale'] - sc) > 1e-15:
            raise Violation('O-feet', 'a geometry with unit_type %r has unit scale %r; a foot is '
                            '0.3048 m exactly' % (want['header']['unit_type'], want['scale']))
        if lines[0][27:32] != ('%-5s' % want['header']['unit_type']):
            raise Violation('O-feet', 'file header carries unit %r for a geometry with unit_type %r'
                            % (lines[0][27:32], want['header']['unit_type']))
        def section(key):
            out, on = [], False
            for l in lines[1:]:
                if on:
                    if not l.strip():
                        break
                    out.append(l)
                elif l.startswith(key):
                    on = True
            return out
        def near(a, b):
            if a is None or a != a:
                return False          # blank or unreadable field in the file
            return abs(a - b) <= 0.005 * 1.02 + 1e-9 * max(1.0, abs(b))
        vs = section('VERTI')
        if len(vs) != len(want['nodes']):
            raise Violation('O-file', 'file has %d vertex records for %d nodes'
                            % (len(vs), len(want['nodes'])))
        for l, (nm, x, y) in zip(vs, want['nodes']):
            fx, fy = F.fread(l[3:13]), F.fread(l[13:23])
            if l[0:3].strip() != nm.strip() or not near(fx, x / sc) or not near(fy, y / sc):
                raise Violation('O-feet' if sc != 1.0 else 'O-file',
                                'vertex record %r does not hold node %r at (%r, %r) %s'
                                % (l, nm, x / sc, y / sc, 'feet' if sc != 1.0 else 'metres'))
        ls = section('LAYER')
        for l, (nm, bot, cen) in zip(ls, want['layers']):
            if l[0:3].strip() != nm.strip() or not near(F.fread(l[3:13]), bot / sc) or \
                    not near(F.fread(l[13:23]), cen / sc):
                raise Violation('O-feet' if sc != 1.0 else 'O-file',
                                'layer record %r does not hold layer %r bottom %r centre %r'
                                % (l, nm, bot / sc, cen / sc))
        ss = section('SURF')
        if len(ss) != len(want['surface']):
            raise Violation('O-file', 'file has %d surface records for %d non-default columns'
                            % (len(ss), len(want['surface'])))
        for l, (nm, z) in zip(ss, want['surface']):
            if l[0:3].strip() != nm.strip() or not near(F.fread(l[3:13]), z / sc):
                raise Violation('O-file', 'surface record %r does not hold column %r at %r'
                                % (l, nm, z / sc))
        self.ctx.probes['file_scanned_' + ('feet' if sc != 1.0 else 'metres')] += 1

    def cfg_fp(self, cfg):
        return (cfg.get('unit'), cfg.get('conv'), cfg.get('atm'))

    STRIP_FIRST = False

    # ---- ops
    def writable(self, geo):
        """Inside the round-trip domain of the format (DESIGN 3 C03)."""
        if geo is None or not geo.layerlist or not geo.columnlist:
            return False
        if not geo.right_justified_names:
            return False
        if mesh_problems(geo):
            return False
        sc = geo.unit_scale
        for c in geo.columnlist:
            for l in geo.layerlist:
                if 0.0 < abs(c.surface - l.bottom) / sc < 0.0101:
                    return False      # rounding to 2 decimals would move it across a boundary
        # coordinates up to the 10-column limit of an F10.2 field (one column goes to the sign)
        hi, lo = 9999999.0 * sc, -999999.0 * sc
        for n in geo.nodelist:
            if not (lo <= n.pos[0] <= hi and lo <= n.pos[1] <= hi):
                return False
        for c in geo.columnlist:
            if c.centre_specified and not (lo <= c.centre[0] <= hi and lo <= c.centre[1] <= hi):
                return False
        for w in geo.welllist:
            for p in w.pos:
                if not all(lo * 10 <= v <= hi / 10 for v in p):
                    return False
        return True

    def apply(self, op):
        kind, ch, fault = op[0], list(op[1]) + [0] * 9, (op[2] if len(op) > 2 else None)
        ctx = self.ctx
        ctx.stats['op_' + kind] += 1
        if kind == 'NEW':
            slot, sub, sub2, nx, ny, nz, atm, conv, opt = ch[:9]
            rng = random.Random(H('newgeo', sub))
            order = (None, 'layer_column', 'dmplex')[opt % 3]
            case = (None, 'u', 'l')[(opt // 3) % 3]
            if sub2 % 5 == 4:
                geo = geo_build.toy(self.mg, sub2, convention=conv % 3, atmos=atm % 3)
            else:
                origin = [rng.choice((0.0, -1234.56, 2.75e6)), rng.choice((0.0, 99.99)),
                          rng.choice((0.0, 150.0, -20.25))]
                geo = geo_build.rect(self.mg, sub, 1 + (nx - 1) % 6, 1 + (ny - 1) % 6,
                                     1 + (nz - 1) % 4, convention=conv % 4, atmos=atm % 3,
                                     order=order, case=case, origin=origin)
            if (opt // 9) % 3 == 1:
                geo.unit_type = 'FEET '
            if (opt // 27) % 2:
                geo.permeability_angle = rng.choice((30.0, -12.5, 90.0))
                geo.atmosphere_volume = rng.choice((1.0e20, 5.55e24))
                geo.atmosphere_connection = rng.choice((1.0e-3, 2.5e-6))
            if sub2 % 3 == 0 and geo.num_layers > 2:
                for col in geo.columnlist:
                    if rng.random() < 0.5:
                        lay = geo.layerlist[rng.randrange(1, geo.num_layers)]
                        col.surface = lay.bottom + rng.choice((0.25, 0.5, 1.0)) * lay.thickness
                        geo.set_column_num_layers(col)
                geo.setup_block_name_index()
                geo.setup_block_connection_name_index()
            if sub2 % 13 == 5:
                # a geometry with a hole: reduce() to all but one interior column
                bn = set(n.name for n in geo.boundary_nodes)
                inner = [c for c in geo.columnlist if not any(n.name in bn for n in c.node)]
                if inner:
                    hole = inner[sub2 % len(inner)]
                    try:
                        geo.reduce([c for c in geo.columnlist if c is not hole])
                        ctx.probes['new_geometry_with_a_hole'] += 1
                    except Exception as e:
                        raise Violation('EXC', 'reduce() to all but one interior column raised %s'
                                        % _short_tb(e))
            if sub2 % 11 in (3, 4):
                # layer centres that are not the mid-elevation, among them a centre at 0.00
                for lay in geo.layerlist[1:]:
                    if lay.bottom < 0.0 < lay.top and sub2 % 11 == 3:
                        lay.centre = 0.0
                    elif rng.random() < 0.4:
                        lay.centre = lay.bottom + rng.choice((0.25, 0.75)) * (lay.top - lay.bottom)
                ctx.probes['layer_centres_off_mid'] += 1
            if sub2 % 7 == 0:
                col = geo.columnlist[0]
                import numpy as np
                col.centre = np.array(col.centre) + 0.3
                col.centre_specified = 1
            elif sub2 % 7 == 1:
                # a specified centre lying on a coordinate axis
                import numpy as np
                col = geo.columnlist[-1]
                c = np.array(col.centre, dtype=float)
                c[rng.randrange(2)] = 0.0
                col.centre = c
                col.centre_specified = 1
            self.objs[slot % self.SLOTS] = geo
            ctx.fp.append(('N', geo.convention, geo.atmosphere_type, geo.unit_type,
                           geo.block_order, min(geo.num_columns, 4)))
            ctx.digest.add('NEW', repr(snap_geo(geo)))
        elif kind == 'EDIT':
            slot, which = self.pick_slot(ch[0]), EDITS[ch[1] % len(EDITS)]
            geo = self.objs.get(slot)
            if geo is None or mesh_problems(geo) or not edge_connected(geo):
                ctx.stats['skip_EDIT'] += 1
                return
            ed = self.editor
            ed.geo, ed.layers_fresh = geo, True
            try:
                done = getattr(ed, 'op_' + which)(ch[2:6] + [0, 0, 0, 0])
            except Refused:
                self.objs.pop(slot, None)
                ctx.stats['refused_naming'] += 1
                return
            except Violation as v:
                # an exception inside a geometry edit is C10's subject, not C03's
                self.objs.pop(slot, None)
                ctx.stats['edit_raised'] += 1
                return
            if done is False:
                ctx.stats['skip_EDIT_' + which] += 1
                return
            self.objs[slot] = ed.geo
            geo = ed.geo
            if which in ('ADD_COL', 'DEL_COL', 'ADD_WELL', 'DEL_WELL'):
                geo.delete_orphans()
                geo.setup_block_name_index()
                geo.setup_block_connection_name_index()
            ctx.fp.append(('E', which))
            ctx.digest.add('EDIT', which, repr(snap_geo(geo)))
        elif kind == 'W':
            slot, ni = self.pick_slot(ch[0]), ch[1] % 3
            geo = self.objs.get(slot)
            if geo is None or not self.writable(geo):
                ctx.stats['skip_W_domain'] += 1
                return
            cfg = {'unit': geo.unit_type, 'conv': geo.convention, 'atm': geo.atmosphere_type}
            self.do_write(slot, self.NAMES[ni], cfg, fault)
        elif kind == 'R':
            if ch[2] % 6 >= 4 and fault is None:
                return self.read_ordered(self.pick_name(ch[0]), ch[1] % 3,
                                         ('layer_column', 'dmplex')[ch[2] % 2])
            reuse = None
            slot = ch[1]
            if slot % 8 >= 4 and self.objs:
                slot = self.pick_slot(slot)
                reuse = self.objs[slot]
            self.do_read(self.pick_name(ch[0]), None if slot % 4 == 3 else slot % 4, fault,
                         reuse=reuse)
        elif kind == 'CYCLE':
            self.do_cycle(self.pick_name(ch[0]))
        elif kind == 'FOREIGN':
            slot, sub, sub2, nx, ny, nz, atm, conv, opt = ch[:9]
            data, snap = foreign_geo(sub, 1 + (nx - 1) % 5, 1 + (ny - 1) % 5, 1 + (nz - 1) % 4,
                                     conv % 3, atm % 3, opt)
            name = self.NAMES[slot % 3]
            ctx.fs.put(name + '.geo', data)
            self.ref[name] = {'state': 'ack', 'snap': snap, 'cfg': {'unit': '', 'foreign': True},
                              'files': [name + '.geo'], 'foreign': True}
            ctx.state_changes += 1
            ctx.fp.append(('F', conv % 3, atm % 3, opt & 15))
            ctx.digest.add('FOREIGN', data)
        elif kind == 'SHIPPED':
            i = (7, 5, 6, 1, 3, 2, 4)[ch[1] % (3 if ctx.knobs.get('tier') != 'thorough' else 7)]
            if ctx.knobs.get('tier') != 'thorough' and ch[1] % 16 >= 12:
                i = (1, 3, 2, 4)[ch[1] % 4]      # the larger ones (blank header fields) less often
            name = self.NAMES[ch[0] % 3]
            data = geo_build.shipped_bytes(i)
            ctx.fs.put(name + '.geo', data)
            # what the shipped file carries is taken from a first read; the claim checked is the
            # fixpoint from there on (O2) and stability of a second read (O1 against the first)
            ctx.fs.begin_op(self.STEP_BUDGET)
            g = self.read(name, None)
            self.ref[name] = {'state': 'ack', 'snap': snap_geo(g), 'cfg': {'unit': g.unit_type},
                              'files': [name + '.geo'], 'foreign': True}
            ctx.state_changes += 1
            ctx.probes['shipped_geometry_g%d' % i] += 1
            ctx.fp.append(('S', i))
            ctx.digest.add('SHIPPED', i)
        elif kind == 'CRASH':
            self.do_crash()
        else:
            raise ValueError(kind)
