"""C01 — TOUGH2 data file round trip (machine `store`, component t2data)."""
import glob
import math
import os
import random
import re

import numpy as np

from ..engine import Violation, _short_tb
from ..seeds import H
from ..simfs import HarnessError
from .. import fortran as F
from .store_base import StoreMachine, swarm_knobs, gen_fault
from .store_incon import gen_name, LET

REPO = os.environ.get('VERIF_REPO', '/repo')
MANT = (1.0, 1.2345678901234, 9.9999999999999, 9.99994, 1.00005, 3.0, 5.5555555555555, 1.013,
        2.718281828459045, 7.0, 1.5, 2.5e0)

# what fits a field (DESIGN 3 C01 "values fit their fields"):
#   kind: (negative allowed, three-digit exponent allowed)
FIT = {'e10.4': (False, False), 'e10.3': (True, False), 'e14.7': (True, False),
       'e20.14': (False, False), 'e20.13': (True, False), 'e15.9': (False, False),
       'e15.8': (True, False), 'f10.7': (True, False)}


def val(rng, kind, zero_ok=True):
    neg_ok, exp3_ok = FIT[kind]
    if kind == 'f10.7':
        return rng.choice((0.0, -1.0, 1.0, 0.5, -0.7071068, 0.1234567))
    if zero_ok and rng.random() < 0.06:
        return 0.0
    m = rng.choice(MANT) if rng.random() < 0.6 else rng.uniform(1, 10)
    neg = neg_ok and rng.random() < 0.25
    if exp3_ok and not neg and rng.random() < 0.1:
        e = rng.choice((100, 150, -100, -250))
    else:
        e = rng.choice((0, 0, 1, 3, 5, 6, -1, -5, -15, 10, 20, 25, 97, -97, rng.randint(-97, 97)))
    x = m * 10.0 ** e
    return -x if neg else x


def rockname(rng, used):
    for _ in range(100):
        if rng.random() < 0.15:
            # a name that is all digits is a name like any other (it is looked up by name first)
            n = rng.choice(('00001', '00002', '00003', '12345', '00010'))
        else:
            n = ''.join(rng.choice(LET + '0123456789') for _ in range(5))
        if n not in used and n.strip() == n:
            return n
    raise HarnessError('no rock name')


def build_data(mods, sub, flags, size):
    """A generated t2data object.  `flags` selects sections, `size` list lengths."""
    t2data, t2grids = mods
    rng = random.Random(H('data', sub))
    dat = t2data.t2data()
    auto = bool(flags & 1)
    dat.title = rng.choice(('generated model', 'x', 'A' * 80, 'title with  spaces'))
    if auto:
        dat.simulator = rng.choice(('AUTOUGH2.2', 'AUTOUGH2.2EW', 'AUTOUGH2.2EWAV'))
    bit = [bool(flags >> k & 1) for k in range(32)]
    _val = val
    def xval(rng_, kind, zero_ok=True):
        # sections that can go to the extra-precision companion (ROCKS, ELEME, CONNE, RPCAP,
        # GENER) hold values representable in its 15.8e fields in an AUTOUGH2 model: otherwise
        # an "echoed" main file is re-derived from the companion's rounding of the value
        # (double rounding), which no reader/writer can make stable
        x = _val(rng_, kind, zero_ok)
        return float('%.8e' % x) if auto else x
    # lengths straddling the 4- and 8-per-line boundaries
    LEN = (0, 1, 3, 4, 5, 7, 8, 9, 12, 13, 16, 17)
    def ln(lo=1):
        return max(lo, rng.choice(LEN[:4 + size * 2]))
    # ---- ROCKS
    g = dat.grid
    nr = max(1, min(12, 1 + rng.randrange(1 + size * 2)))
    used = set()
    for _ in range(nr):
        name = rockname(rng, used)
        used.add(name)
        nad = rng.choice((0, 0, 1, 2, 2))
        rt = t2grids.rocktype(name, nad, xval(rng, 'e10.4'), xval(rng, 'e10.4'),
                              [xval(rng, 'e10.4') for _ in range(3)], xval(rng, 'e10.4'),
                              xval(rng, 'e10.4'))
        if nad >= 1:
            rt.compressibility, rt.expansivity = xval(rng, 'e10.4'), xval(rng, 'e10.4')
            rt.dry_conductivity, rt.tortuosity = xval(rng, 'e10.4'), xval(rng, 'e10.4')
            if rng.random() < 0.5:
                rt.klinkenberg, rt.xkd3, rt.xkd4 = (xval(rng, 'e10.4') for _ in range(3))
        if nad >= 2:
            npar = rng.choice((7, 7, 3, 5))
            rt.relative_permeability = {'type': rng.randint(1, 11),
                                        'parameters': [xval(rng, 'e10.3') for _ in range(npar)] +
                                        [None] * (7 - npar)}
            rt.capillarity = {'type': rng.randint(1, 8),
                              'parameters': [xval(rng, 'e10.3') for _ in range(npar)] +
                              [None] * (7 - npar)}
        g.add_rocktype(rt)
    # ---- ELEME / CONNE
    nb = 0 if bit[20] and rng.random() < 0.2 else min(40, 1 + rng.randrange(2 + size * 6))
    names = set()
    for i in range(nb):
        for _t in range(50):
            nm = gen_name(rng)
            if nm not in names:
                break
        else:
            break
        names.add(nm)
        centre = None if bit[2] and not bit[21] else [xval(rng, 'e10.3') for _ in range(3)]
        blk = t2grids.t2block(nm, xval(rng, 'e10.4'), rng.choice(g.rocktypelist), centre=centre)
        if bit[3]:
            blk.ahtx, blk.pmx = xval(rng, 'e10.4'), xval(rng, 'e10.4')
        if bit[4] and rng.random() < 0.5:
            blk.nseq, blk.nadd = rng.randint(1, 99999), rng.randint(1, 99999)
            if rng.random() < 0.3:
                # either of the two may be absent on its own
                if rng.random() < 0.5:
                    blk.nseq = None
                else:
                    blk.nadd = None
        g.add_block(blk)
    bl = g.blocklist
    if len(bl) >= 2:
        nc = min(60, rng.randrange(1, 2 + 2 * len(bl)))
        for _ in range(nc):
            a, b = rng.sample(bl, 2)
            if (a.name, b.name) in g.connection or (b.name, a.name) in g.connection:
                continue
            con = t2grids.t2connection([a, b], rng.randint(1, 3),
                                       [xval(rng, 'e10.4'), xval(rng, 'e10.4')], xval(rng, 'e10.4'),
                                       xval(rng, 'f10.7') if rng.random() < 0.9 else None,
                                       xval(rng, 'e10.3', ) if bit[5] else None)
            if bit[4] and rng.random() < 0.3:
                con.nseq, con.nad1, con.nad2 = (rng.randint(1, 99999) for _ in range(3))
            g.add_connection(con)
    # ---- PARAM
    p = dat.parameter
    def maybe(v):
        return v if rng.random() < 0.75 else None
    p['max_iterations'], p['print_level'] = maybe(rng.randint(0, 99)), maybe(rng.randint(0, 99))
    p['max_timesteps'], p['max_duration'] = maybe(rng.randint(0, 9999)), maybe(rng.randint(0, 9999))
    p['print_interval'] = maybe(rng.randint(0, 9999))
    for k in range(1, 25):
        p['option'][k] = rng.choice((0, 0, 0, 1, 2, 5, 9))
    if auto:
        p['diff0'] = maybe(val(rng, 'e10.3'))
    p['texp'], p['be'] = maybe(val(rng, 'e10.3')), maybe(val(rng, 'e10.3'))
    p['tstart'] = abs(val(rng, 'e10.3'))
    p['tstop'] = maybe(abs(val(rng, 'e10.3')))
    p['max_timestep'] = maybe(abs(val(rng, 'e10.3')))
    p['print_block'] = rng.choice(bl).name if (bl and rng.random() < 0.4) else None
    p['gravity'] = val(rng, 'e10.4')
    p['timestep_reduction'], p['scale'] = maybe(val(rng, 'e10.4')), maybe(val(rng, 'e10.4'))
    if bit[6]:
        nts = max(1, ln())
        p['timestep'] = [val(rng, 'e10.4') for _ in range(nts)]
        # DELTEN = -N announces N lines of step sizes; the last may be short or even empty
        p['const_timestep'] = -float(int(math.ceil(nts / 8.0)) + (1 if rng.random() < 0.25 else 0))
    else:
        p['const_timestep'] = abs(val(rng, 'e10.3'))
        p['timestep'] = [p['const_timestep']]
    for k in ('relative_error', 'absolute_error', 'pivot', 'upstream_weight', 'newton_weight',
              'derivative_increment'):
        p[k] = maybe(val(rng, 'e10.4'))
    p['default_incons'] = [val(rng, 'e20.14') for _ in range(rng.choice((0, 1, 2, 3, 4, 5, 8, 9, 12))
                                                              if bit[7] else rng.randint(0, 4))]
    # ---- MOMOP, START, NOVER
    if bit[8]:
        for k in range(1, 22):
            dat.more_option[k] = rng.choice((0, 0, 1, 3, 9))
        if not dat.more_option.any():
            dat.more_option[1] = 1
    dat.start = bit[9]
    dat.noversion = bit[10]
    # ---- RPCAP
    if bit[11]:
        dat.relative_permeability = {'type': rng.randint(1, 11),
                                     'parameters': [xval(rng, 'e10.3') for _ in range(7)]}
        dat.capillarity = {'type': rng.randint(1, 8),
                           'parameters': [xval(rng, 'e10.3') for _ in range(7)]}
    # ---- LINEQ / SOLVR
    if bit[12]:
        if auto:
            dat.lineq = {'type': rng.randint(1, 5), 'epsilon': val(rng, 'e10.4'),
                         'max_iterations': rng.randint(1, 9999), 'gauss': rng.randint(0, 1),
                         'num_orthog': rng.randint(1, 99)}
        else:
            dat.solver = {'type': rng.randint(1, 6), 'z_precond': rng.choice(('Z0', 'Z1', 'Z4')),
                          'o_precond': rng.choice(('O0', 'O2', 'O4')),
                          'relative_max_iterations': val(rng, 'e10.4'),
                          'closure': val(rng, 'e10.4')}
    # ---- MULTI
    if bit[13]:
        dat.multi = {'num_components': rng.randint(1, 3), 'num_equations': rng.randint(1, 4),
                     'num_phases': rng.randint(1, 3), 'num_secondary_parameters': rng.randint(6, 8)}
        if auto:
            dat.multi['eos'] = rng.choice(('EW', 'EWAV', 'EWC'))
        elif rng.random() < 0.5:
            dat.multi['num_inc'] = rng.randint(1, 5)
    # ---- TIMES
    if bit[14]:
        nt = max(1, ln())
        dat.output_times = {'num_times_specified': nt, 'num_times': maybe(rng.randint(nt, 99)),
                            'max_timestep': maybe(val(rng, 'e10.4')),
                            'time_increment': maybe(val(rng, 'e10.4')),
                            'time': [val(rng, 'e10.4') for _ in range(nt)]}
    # ---- SELEC
    if bit[15]:
        nl = rng.randint(0, 3)
        dat.selection = {'integer': [nl] + [maybe(rng.randint(0, 99999)) for _ in range(15)],
                         'float': [maybe(val(rng, 'e10.3')) for _ in range(8 * nl)]}
    # ---- DIFFU
    if bit[16] and dat.multi:
        dat.diffusion = [[val(rng, 'e10.3') for _ in range(dat.multi['num_phases'])]
                         for _ in range(dat.multi['num_components'])]
    # ---- GENER
    if bit[17] and bl:
        ng = min(25, max(1, ln()))
        gtypes = ('MASS', 'HEAT', 'COM1', 'COM2', 'DELV', 'AIR ', 'WATE') + \
            (('CO2 ', 'RECH', 'DELG') if auto else ())
        seen = set()
        for _ in range(ng):
            blk = rng.choice(bl).name
            gname = gen_name(rng)
            if (blk, gname) in seen:
                continue
            seen.add((blk, gname))
            gtype = rng.choice(gtypes)
            gen = t2data.t2generator(gname, blk, type=gtype, gx=xval(rng, 'e10.3'),
                                     ex=xval(rng, 'e10.3'),
                                     hg=maybe(xval(rng, 'e10.3')), fg=maybe(xval(rng, 'e10.3')))
            r = rng.random()
            if r < 0.5 and gtype != 'DELV':
                nt = rng.randint(2, 12)
                gen.ltab = nt if rng.random() < 0.8 else -nt
                gen.time = [xval(rng, 'e14.7') for _ in range(nt)]
                gen.rate = [xval(rng, 'e14.7') for _ in range(nt)]
                if rng.random() < 0.5:
                    gen.itab = rng.choice(('1', 'x', '2'))
                    gen.enthalpy = [xval(rng, 'e14.7') for _ in range(nt)]
            elif gtype == 'DELV':
                gen.ltab = rng.randint(1, 9)
            else:
                gen.ltab = rng.choice((0, 1, None))
            if rng.random() < 0.2:
                gen.nseq, gen.nadd, gen.nads = (rng.randint(1, 999) for _ in range(3))
            dat.add_generator(gen)
    # ---- INCON
    if bit[18] and bl:
        for blk in bl:
            if rng.random() < 0.6:
                nv = rng.randint(1, 4)
                inc = [maybe(val(rng, 'e15.9')), [val(rng, 'e20.14') for _ in range(nv)]]
                if rng.random() < 0.3:
                    inc += [rng.randint(1, 99999), rng.randint(1, 99999)]
                dat.incon[blk.name] = inc
    # ---- INDOM
    if bit[19]:
        for rt in g.rocktypelist:
            if rng.random() < 0.5:
                dat.indom[rt.name] = [val(rng, 'e20.13') for _ in range(rng.randint(1, 4))]
    # ---- FOFT / COFT / GOFT
    if bit[22] and bl:
        dat.history_block = [b for b in rng.sample(bl, min(len(bl), max(1, ln())))]
        if g.connectionlist and rng.random() < 0.7:
            dat.history_connection = rng.sample(g.connectionlist,
                                                min(len(g.connectionlist), max(1, ln())))
        if rng.random() < 0.5:
            dat.history_generator = rng.sample(bl, min(len(bl), max(1, ln())))
    # ---- SHORT (AUTOUGH2, in-file mesh only: resolved against the grid while reading)
    if bit[23] and auto and bl:
        so = {}
        if rng.random() < 0.7:
            so['frequency'] = rng.randint(1, 99)
        so['block'] = rng.sample(bl, min(len(bl), ln(0)))
        if g.connectionlist and rng.random() < 0.6:
            so['connection'] = rng.sample(g.connectionlist, min(len(g.connectionlist), ln(0)))
        if dat.generatorlist and rng.random() < 0.6:
            so['generator'] = rng.sample(dat.generatorlist, min(len(dat.generatorlist), ln(0)))
        dat.short_output = so
    # ---- MESHM
    if bit[24]:
        kind = rng.choice(('rz2d', 'xyz', 'minc'))
        if kind == 'rz2d':
            nrad, nlay = max(1, ln()), max(1, ln())
            sec = [('radii', {'radii': [val(rng, 'e10.4') for _ in range(nrad)]})]
            if rng.random() < 0.5:
                sec.append(('equid', {'nequ': rng.randint(1, 99), 'dr': val(rng, 'e10.4')}))
            if rng.random() < 0.5:
                sec.append(('logar', {'nlog': rng.randint(1, 99), 'rlog': val(rng, 'e10.4'),
                                      'dr': val(rng, 'e10.4')}))
            sec.append(('layer', {'layer': [val(rng, 'e10.4') for _ in range(nlay)]}))
            dat.meshmaker.append(('rz2d', sec))
        elif kind == 'xyz':
            sec = [val(rng, 'e10.4')]
            for ax in ('NX', 'NY', 'NZ')[:rng.randint(1, 3)]:
                if rng.random() < 0.5:
                    no = max(1, ln())
                    sec.append({'ntype': ax, 'no': no, 'del': 0.0,
                                'deli': [val(rng, 'e10.4', zero_ok=False) for _ in range(no)]})
                else:
                    sec.append({'ntype': ax, 'no': rng.randint(1, 99),
                                'del': val(rng, 'e10.4', zero_ok=False)})
            dat.meshmaker.append(('xyz', sec))
        else:
            nvol = max(1, ln())
            dat.meshmaker.append(('minc', {
                'type': rng.choice(('ONE-D', 'TWO-D', 'THRED')), 'dual': rng.choice(('     ', 'DFLT ')),
                'num_continua': rng.randint(2, 9), 'where': rng.choice(('OUT ', 'IN  ', 'OUT ', None)),
                'spacing': [val(rng, 'e10.4') for _ in range(7)],
                'vol': [val(rng, 'e10.4') for _ in range(nvol)]}))
    return dat


def quantize_xp(dat):
    """Values of the sections that can go to the extra-precision companion made representable in
    its 15.8e fields (see xval in build_data)."""
    def q(x):
        return None if x is None else float('%.8e' % x)
    g = dat.grid
    for rt in g.rocktypelist:
        for k in ('density', 'porosity', 'conductivity', 'specific_heat', 'compressibility',
                  'expansivity', 'dry_conductivity', 'tortuosity', 'klinkenberg', 'xkd3', 'xkd4'):
            if getattr(rt, k, None) is not None:
                setattr(rt, k, q(getattr(rt, k)))
        rt.permeability = np.array([q(k) for k in rt.permeability])
        for d in (rt.relative_permeability, rt.capillarity):
            if d.get('parameters'):
                d['parameters'] = [q(v) for v in d['parameters']]
    for b in g.blocklist:
        b.volume, b.ahtx, b.pmx = q(b.volume), q(b.ahtx), q(b.pmx)
        if b.centre is not None:
            b.centre = np.array([q(v) for v in b.centre])
    for c in g.connectionlist:
        c.distance = [q(v) for v in c.distance]
        c.area, c.dircos, c.sigma = q(c.area), q(c.dircos), q(c.sigma)
    for d in (dat.relative_permeability, dat.capillarity):
        if d.get('parameters'):
            d['parameters'] = [q(v) for v in d['parameters']]
    for gen in dat.generatorlist:
        gen.gx, gen.ex, gen.hg, gen.fg = q(gen.gx), q(gen.ex), q(gen.hg), q(gen.fg)
        gen.time = [q(v) for v in gen.time]
        gen.rate = [q(v) for v in gen.rate]
        gen.enthalpy = [q(v) for v in gen.enthalpy]


def r_(x):
    return None if x is None else float(x)


def snap_data(dat):
    """Plain-data content of a t2data object, with the normalisations of DESIGN 3 C01."""
    s = {}
    s['sections'] = list(dat._sections)
    s['title'] = dat.title.strip()
    s['simulator'] = dat.simulator.strip()
    g = dat.grid
    s['rocks'] = []
    for rt in g.rocktypelist:
        d = {'name': rt.name, 'nad': rt.nad or 0, 'density': r_(rt.density),
             'porosity': r_(rt.porosity), 'k': [r_(k) for k in rt.permeability],
             'conductivity': r_(rt.conductivity), 'specific_heat': r_(rt.specific_heat)}
        if (rt.nad or 0) >= 1:
            for k in ('compressibility', 'expansivity', 'dry_conductivity', 'tortuosity',
                      'klinkenberg', 'xkd3', 'xkd4'):
                d[k] = r_(getattr(rt, k, None))
        if (rt.nad or 0) >= 2:
            d['rp'] = (rt.relative_permeability.get('type'),
                       [r_(v) for v in rt.relative_permeability.get('parameters', [])])
            d['cp'] = (rt.capillarity.get('type'),
                       [r_(v) for v in rt.capillarity.get('parameters', [])])
        s['rocks'].append(d)
    s['blocks'] = [(b.name, b.nseq or None, b.nadd or None, b.rocktype.name, r_(b.volume),
                    r_(b.ahtx), r_(b.pmx),
                    None if b.centre is None else [r_(c) for c in b.centre])
                   for b in g.blocklist]
    s['connections'] = [((c.block[0].name, c.block[1].name), c.nseq or None, c.nad1 or None,
                         c.nad2 or None, c.direction, [r_(d) for d in c.distance], r_(c.area),
                         r_(c.dircos), r_(c.sigma)) for c in g.connectionlist]
    p = dat.parameter
    s['param'] = dict((k, p.get(k)) for k in (
        'max_iterations', 'print_level', 'max_timesteps', 'max_duration', 'print_interval',
        'diff0', 'texp', 'be', 'tstart', 'tstop', 'const_timestep', 'max_timestep', 'gravity',
        'timestep_reduction', 'scale', 'relative_error', 'absolute_error', 'pivot',
        'upstream_weight', 'newton_weight', 'derivative_increment'))
    pb = p.get('print_block')
    s['param']['print_block'] = None if pb is None or not pb.strip() else pb
    s['param']['option'] = [int(x) for x in p['option'][1:]]
    s['param']['timestep'] = [r_(t) for t in p['timestep']] \
        if (p.get('const_timestep') or 0.0) < 0 else None
    s['param']['default_incons'] = [r_(v) for v in p['default_incons']]
    s['more_option'] = [int(x) for x in dat.more_option[1:]]
    s['start'], s['noversion'] = bool(dat.start), bool(dat.noversion)
    def rpcap(d):
        return None if not d else (d.get('type'), [r_(v) for v in d.get('parameters', [])])
    s['rpcap'] = (rpcap(dat.relative_permeability), rpcap(dat.capillarity))
    s['lineq'] = dict(dat.lineq)
    s['solver'] = dict((k, (v.strip() if isinstance(v, str) else v)) for k, v in dat.solver.items())
    s['multi'] = dict(dat.multi)        # (the EOS name is compared exactly: the reader strips it)
    ot = dat.output_times
    s['times'] = None if not ot else dict((k, ot.get(k)) for k in (
        'num_times_specified', 'num_times', 'max_timestep', 'time_increment'))
    if ot:
        s['times']['time'] = [r_(t) for t in ot.get('time', [])]
    s['selection'] = None if not dat.selection else \
        (list(dat.selection['integer']), [r_(v) for v in dat.selection['float']])
    s['diffusion'] = [[r_(v) for v in row] for row in dat.diffusion]
    s['generators'] = []
    for gen in dat.generatorlist:
        s['generators'].append({
            'name': gen.name, 'block': gen.block, 'nseq': gen.nseq or None,
            'nadd': gen.nadd or None, 'nads': gen.nads or None, 'type': gen.type,
            'ltab': gen.ltab or None, 'itab': (gen.itab or '').strip(), 'gx': r_(gen.gx),
            'ex': r_(gen.ex), 'hg': r_(gen.hg), 'fg': r_(gen.fg),
            'time': [r_(v) for v in gen.time], 'rate': [r_(v) for v in gen.rate],
            'enthalpy': [r_(v) for v in gen.enthalpy]})
    if len(dat.generator) != len(set((gn.block, gn.name) for gn in dat.generatorlist)):
        raise Violation('O1.gener', 'generator lookup and generator list disagree')
    s['incon'] = dict((k, (r_(v[0]), [r_(x) for x in v[1]],
                           (v[2] if len(v) > 2 else None) or None,
                           (v[3] if len(v) > 3 else None) or None))
                      for k, v in dat.incon.items())
    s['indom'] = dict((k, [r_(x) for x in v]) for k, v in dat.indom.items())
    def bname(b):
        return b if isinstance(b, str) else b.name
    def cname(c):
        return tuple(c) if isinstance(c, tuple) else tuple(b.name for b in c.block)
    s['foft'] = [bname(b) for b in dat.history_block]
    s['coft'] = [cname(c) for c in dat.history_connection]
    s['goft'] = [bname(b) for b in dat.history_generator]
    so = dat.short_output
    s['short'] = None if not so else {
        'frequency': so.get('frequency') or None,
        'block': None if 'block' not in so else [b.name for b in so['block']],
        'connection': None if 'connection' not in so else [cname(c) for c in so['connection']],
        'generator': None if 'generator' not in so else [(gn.block, gn.name)
                                                         for gn in so['generator']]}
    mm = []
    for stype, sec in dat.meshmaker:
        if stype == 'rz2d':
            mm.append(('rz2d', [(k, dict((a, ([r_(x) for x in b] if isinstance(b, list) else b))
                                         for a, b in d.items())) for k, d in sec]))
        elif stype == 'xyz':
            mm.append(('xyz', [r_(sec[0])] +
                       [dict((a, ([r_(x) for x in b] if isinstance(b, list)
                                  else (b.strip() if isinstance(b, str) else b)))
                             for a, b in d.items()) for d in sec[1:]]))
        else:
            mm.append(('minc', dict((a, ([r_(x) for x in b] if isinstance(b, list)
                                         else (b.strip() if isinstance(b, str) else b)))
                                    for a, b in sec.items())))
    s['meshmaker'] = mm
    return s


class Cmp(object):
    """Field-by-field comparison to the digits each field carries (hand-written table)."""

    def __init__(self, what, xp):
        self.what = what
        self.xp = xp           # sections written in extra precision (15.8e)

    def bad(self, sub, msg):
        raise Violation('O1.' + sub, '%s: %s' % (self.what, msg))

    def num(self, sub, label, a, b, p, sect=None):
        if sect is not None and sect in self.xp:
            p = 8
        ok = F.close_e(a, b, p) if p != 'f7' else F.close_f(a, b, 7 if not (sect in self.xp) else 8)
        if not ok:
            self.bad(sub, '%s %r read back as %r' % (label, a, b))

    def seq(self, sub, label, a, b, p, sect=None, trim=True):
        a, b = list(a), list(b)
        if trim:
            while a and a[-1] is None:
                a.pop()
            while b and b[-1] is None:
                b.pop()
        if len(a) != len(b):
            self.bad(sub, '%s has %d values, read back %d: %r vs %r' % (label, len(a), len(b),
                                                                      a[:9], b[:9]))
        for x, y in zip(a, b):
            self.num(sub, label, x, y, p, sect)

    def same(self, sub, label, a, b):
        if a != b:
            self.bad(sub, '%s %r read back as %r' % (label, a, b))


def compare_data(want, got, cfg, what):
    xp = set(cfg.get('xp') or ())
    binmesh = cfg.get('mesh') == 'binary'
    c = Cmp(what, xp)
    # sections: sequence for an in-file mesh; with a mesh file the relative order of the sections
    # that live in the main file, and the same set
    ws, gs = want['sections'], got['sections']
    mesh_file = cfg.get('mesh') not in (None, 'infile')
    def main_file(secs, written):
        out = []
        for k in secs:
            if mesh_file and k in ('ELEME', 'CONNE'):
                continue          # where the reader lists them is not information the files carry
            if written and cfg.get('echo_off') and k in xp:
                continue          # lives in the companion file only
            out.append(k)
        return out
    if not cfg.get('foreign'):
        c.same('sections', 'order of the sections in the main file', main_file(ws, True),
               main_file(gs, False) if not cfg.get('echo_off') else
               [k for k in main_file(gs, False) if k not in xp])
    c.same('title', 'title', want['title'], got['title'])
    c.same('simul', 'simulator', want['simulator'], got['simulator'])
    # rocks
    c.same('rocks', 'rock type names', [r['name'] for r in want['rocks']],
           [r['name'] for r in got['rocks']])
    for w, g in zip(want['rocks'], got['rocks']):
        lab = 'rock type %r ' % w['name']
        c.same('rocks', lab + 'nad', w['nad'], g['nad'])
        for k in ('density', 'porosity', 'conductivity', 'specific_heat'):
            c.num('rocks', lab + k, w[k], g[k], 4, 'ROCKS')
        c.seq('rocks', lab + 'permeability', w['k'], g['k'], 4, 'ROCKS', trim=False)
        if w['nad'] >= 1:
            for k in ('compressibility', 'expansivity', 'dry_conductivity', 'tortuosity',
                      'klinkenberg', 'xkd3', 'xkd4'):
                c.num('rocks', lab + k, w.get(k), g.get(k), 4, 'ROCKS')
        if w['nad'] >= 2:
            for k, nm in (('rp', 'relative permeability'), ('cp', 'capillarity')):
                c.same('rocks', lab + nm + ' type', w[k][0], g[k][0])
                c.seq('rocks.rpcap', lab + nm + ' parameters', w[k][1], g[k][1], 3, 'ROCKS')
    # blocks
    c.same('eleme', 'block names', [b[0] for b in want['blocks']], [b[0] for b in got['blocks']])
    for w, g in zip(want['blocks'], got['blocks']):
        lab = 'block %r ' % w[0]
        if not binmesh:
            c.same('eleme', lab + 'nseq/nadd', w[1:3], g[1:3])
        c.same('eleme', lab + 'rock type', w[3], g[3])
        pe = 4 if not binmesh else 15
        c.num('eleme', lab + 'volume', w[4], g[4], pe, 'ELEME')
        if binmesh:
            # the binary files hold 0.0 for an absent ahtx / pmx
            c.num('eleme', lab + 'ahtx', w[5] or 0.0, g[5] or 0.0, 15, 'ELEME')
            c.num('eleme', lab + 'pmx', w[6] or 0.0, g[6] or 0.0, 15, 'ELEME')
        else:
            c.num('eleme', lab + 'ahtx', w[5], g[5], 4, 'ELEME')
            c.num('eleme', lab + 'pmx', w[6], g[6], 4, 'ELEME')
        if (w[7] is None) != (g[7] is None):
            c.bad('eleme', lab + 'centre %r read back as %r' % (w[7], g[7]))
        if w[7] is not None:
            c.seq('eleme', lab + 'centre', w[7], g[7], 3 if not binmesh else 15, 'ELEME')
    c.same('conne', 'connection names', [x[0] for x in want['connections']],
           [x[0] for x in got['connections']])
    for w, g in zip(want['connections'], got['connections']):
        lab = 'connection %r ' % (w[0],)
        if not binmesh:
            c.same('conne', lab + 'nseq/nad1/nad2', w[1:4], g[1:4])
        c.same('conne', lab + 'direction', w[4], g[4])
        pe = 4 if not binmesh else 15
        c.seq('conne', lab + 'distances', w[5], g[5], pe, 'CONNE')
        c.num('conne', lab + 'area', w[6], g[6], pe, 'CONNE')
        if binmesh:
            c.num('conne', lab + 'dircos', w[7] or 0.0, g[7] or 0.0, 15, 'CONNE')
            c.num('conne', lab + 'sigma', w[8] or 0.0, g[8] or 0.0, 15, 'CONNE')
        else:
            c.num('conne', lab + 'dircos', w[7], g[7], 'f7', 'CONNE')
            c.num('conne', lab + 'sigma', w[8], g[8], 3, 'CONNE')
    # param
    wp, gp = want['param'], got['param']
    for k in ('max_iterations', 'print_level', 'max_timesteps', 'max_duration', 'print_interval',
              'print_block', 'option'):
        c.same('param', 'parameter ' + k, wp[k], gp[k])
    for k, pdig in (('diff0', 3), ('texp', 3), ('be', 3), ('tstart', 3), ('tstop', 3),
                    ('const_timestep', 3), ('max_timestep', 3), ('gravity', 4),
                    ('timestep_reduction', 4), ('scale', 4), ('relative_error', 4),
                    ('absolute_error', 4), ('pivot', 4), ('upstream_weight', 4),
                    ('newton_weight', 4), ('derivative_increment', 4)):
        c.num('param', 'parameter ' + k, wp[k], gp[k], pdig)
    if wp['timestep'] is not None:
        c.seq('param', 'time step list', wp['timestep'], gp['timestep'] or [], 4)
    c.seq('param.incons', 'default initial conditions', wp['default_incons'],
          gp['default_incons'], 14)
    c.same('momop', 'more options', want['more_option'], got['more_option'])
    c.same('flags', 'START', want['start'], got['start'])
    c.same('flags', 'NOVER', want['noversion'], got['noversion'])
    for i, nm in enumerate(('relative permeability', 'capillarity')):
        w, g = want['rpcap'][i], got['rpcap'][i]
        if (w is None) != (g is None):
            c.bad('rpcap', '%s %r read back as %r' % (nm, w, g))
        if w is not None:
            c.same('rpcap', nm + ' type', w[0], g[0])
            c.seq('rpcap', nm + ' parameters', w[1], g[1], 3, 'RPCAP')
    for sec in ('lineq', 'solver'):
        w, g = want[sec], got[sec]
        c.same(sec, sec + ' keys', sorted(k for k in w if w[k] is not None),
               sorted(k for k in g if g[k] is not None))
        for k in w:
            if isinstance(w[k], float):
                c.num(sec, '%s %s' % (sec, k), w[k], g.get(k), 4)
            elif w[k] is not None:
                c.same(sec, '%s %s' % (sec, k), w[k], g.get(k))
    c.same('multi', 'MULTI', dict((k, v) for k, v in want['multi'].items() if v is not None),
           dict((k, v) for k, v in got['multi'].items() if v is not None))
    w, g = want['times'], got['times']
    if (w is None) != (g is None):
        c.bad('times', 'output times %r read back as %r' % (w, g))
    if w is not None:
        c.same('times', 'output time counts', (w['num_times_specified'], w['num_times']),
               (g['num_times_specified'], g['num_times']))
        c.num('times', 'output max_timestep', w['max_timestep'], g['max_timestep'], 4)
        c.num('times', 'output time_increment', w['time_increment'], g['time_increment'], 4)
        c.seq('times', 'output times', w['time'], g['time'], 4)
    w, g = want['selection'], got['selection']
    if (w is None) != (g is None):
        c.bad('selec', 'selection %r read back as %r' % (w, g))
    if w is not None:
        c.same('selec', 'selection integers', w[0], g[0])
        c.seq('selec', 'selection reals', w[1], g[1], 3, trim=False)
    if len(want['diffusion']) != len(got['diffusion']):
        c.bad('diffu', 'diffusion has %d rows, read back %d' % (len(want['diffusion']),
                                                                 len(got['diffusion'])))
    for w, g in zip(want['diffusion'], got['diffusion']):
        c.seq('diffu', 'diffusion row', w, g, 3, trim=False)
    c.same('gener', 'generator (block, name) list',
           [(x['block'], x['name']) for x in want['generators']],
           [(x['block'], x['name']) for x in got['generators']])
    for w, g in zip(want['generators'], got['generators']):
        lab = 'generator %r ' % ((w['block'], w['name']),)
        for k in ('nseq', 'nadd', 'nads', 'type', 'ltab', 'itab'):
            c.same('gener', lab + k, w[k], g[k])
        for k in ('gx', 'ex', 'hg', 'fg'):
            c.num('gener', lab + k, w[k], g[k], 3, 'GENER')
        for k in ('time', 'rate', 'enthalpy'):
            c.seq('gener.table', lab + k + ' table', w[k], g[k], 7, 'GENER', trim=False)
    c.same('incon', 'blocks with initial conditions', sorted(want['incon']), sorted(got['incon']))
    for k, w in want['incon'].items():
        g = got['incon'][k]
        c.num('incon', 'initial condition porosity of %r' % k, w[0], g[0], 9)
        c.seq('incon', 'initial conditions of %r' % k, w[1], g[1], 14)
        c.same('incon', 'initial condition nseq/nadd of %r' % k, w[2:], g[2:])
    c.same('indom', 'INDOM rock types', sorted(want['indom']), sorted(got['indom']))
    for k, w in want['indom'].items():
        c.seq('indom', 'INDOM of %r' % k, w, got['indom'][k], 13)
    for k in ('foft', 'coft', 'goft'):
        c.same(k, k.upper() + ' list', want[k], got[k])
    w, g = want['short'], got['short']
    if (w is None) != (g is None):
        c.bad('short', 'short output %r read back as %r' % (w, g))
    if w is not None:
        for k in ('frequency', 'block', 'connection', 'generator'):
            c.same('short', 'short output ' + k, w[k], g[k])
    compare_meshmaker(c, want['meshmaker'], got['meshmaker'])


def compare_meshmaker(c, want, got):
    if [m[0] for m in want] != [m[0] for m in got]:
        c.bad('meshm', 'mesh-maker entries %r read back as %r' % ([m[0] for m in want],
                                                                   [m[0] for m in got]))
    for (st, w), (_, g) in zip(want, got):
        if st == 'rz2d':
            c.same('meshm', 'RZ2D subsections', [k for k, _ in w], [k for k, _ in g])
            for (k, dw), (_, dg) in zip(w, g):
                for a, b in dw.items():
                    if isinstance(b, list):
                        c.seq('meshm', 'RZ2D %s %s' % (k, a), b, dg.get(a, []), 4, trim=False)
                    elif isinstance(b, float):
                        c.num('meshm', 'RZ2D %s %s' % (k, a), b, dg.get(a), 4)
                    else:
                        c.same('meshm', 'RZ2D %s %s' % (k, a), b, dg.get(a))
        elif st == 'xyz':
            c.num('meshm', 'XYZ deg', w[0], g[0], 4)
            if len(w) != len(g):
                c.bad('meshm', 'XYZ has %d entries, read back %d' % (len(w) - 1, len(g) - 1))
            for dw, dg in zip(w[1:], g[1:]):
                c.same('meshm', 'XYZ ntype/no', (dw['ntype'], dw['no']), (dg['ntype'], dg['no']))
                c.num('meshm', 'XYZ del', dw['del'], dg['del'], 4)
                if dw['del'] == 0:
                    c.seq('meshm', 'XYZ deli', dw['deli'], dg.get('deli', []), 4, trim=False)
        else:
            for a in ('type', 'dual', 'num_continua', 'where'):
                wa, ga = w[a], g.get(a)
                if a == 'where':
                    # a text field: None and blanks are the same absence
                    wa, ga = (wa or '').strip(), (ga or '').strip()
                c.same('meshm', 'MINC ' + a, wa, ga)
            c.seq('meshm', 'MINC spacing', w['spacing'], g['spacing'], 4)
            c.seq('meshm', 'MINC vol', w['vol'], g['vol'], 4, trim=False)


SHIPPED = (
    ('TOUGH2/2/r1q.dat', None), ('TOUGH2/1/rfp.dat', 'TOUGH2/1/MESH'),
    ('TOUGH2-MP/1/INFILE', ('TOUGH2-MP/1/MESHA', 'TOUGH2-MP/1/MESHB')),
)
_BYTES = {}


def shipped_files():
    base = os.path.join(REPO, 'tests', 'data')
    out = []
    for d in sorted(glob.glob(os.path.join(base, '*', '*'))):
        fs = sorted(os.listdir(d))
        out.append((os.path.relpath(d, base), fs))
    return out


def fbytes(rel):
    if rel not in _BYTES:
        _BYTES[rel] = open(os.path.join(REPO, 'tests', 'data', rel), 'rb').read()
    return _BYTES[rel]


MESH_MODES = ('infile', 'infile', 'ascii', 'binary')


class DataStoreMachine(StoreMachine):
    PROP = 'C01'
    NAMES = ('a', 'run.1', 'run.2')      # two names share the text before their first dot
    OPS = ('NEW', 'MUTATE', 'W', 'R', 'CYCLE', 'SHIPPED', 'CRASH', 'PERMUTE', 'FOREIGN')
    STEP_BUDGET = 6000000
    STRIP_FIRST = True
    EMPTY_IS_ABSENT = True

    @classmethod
    def knobs(cls, rng, tier):
        k = swarm_knobs(rng, tier)
        k['size'] = rng.choice((0, 1, 1, 2, 3))
        w = {op: (rng.random() if rng.random() < 0.85 else 0.0) for op in cls.OPS}
        w['W'] = max(w['W'], 0.6)
        w['R'] = max(w['R'], 0.5)
        w['CYCLE'] = max(w['CYCLE'], 0.3)
        w['NEW'] = max(w['NEW'], 0.2)
        w['SHIPPED'] *= 0.1
        w['CRASH'] = 0.0 if k['fault_rate'] == 0.0 else w['CRASH'] * 0.3
        k['weights'] = w
        k['nops'] = rng.randint(3, 14)
        return k

    @classmethod
    def generate(cls, rng, knobs):
        R = rng.randrange
        big = 10 ** 6
        def new():
            return [R(3), R(10 ** 9), R(2 ** 25), knobs['size']]
        ops = [['NEW', new(), None]]
        kinds = [o for o in cls.OPS if knobs['weights'][o] > 0]
        wts = [knobs['weights'][o] for o in kinds]
        for _ in range(knobs['nops']):
            kd = rng.choices(kinds, wts)[0]
            if kd == 'NEW':
                ch = new()
            elif kd == 'W':
                ch = [R(3), R(3), R(4), R(6), R(3), R(32)]
            elif kd == 'R':
                ch = [R(3), R(6)]
            elif kd in ('MUTATE', 'PERMUTE'):
                ch = [R(3), R(big), R(big)]
            elif kd == 'SHIPPED':
                ch = [R(3), R(6)]
            elif kd == 'FOREIGN':
                ch = [R(3), R(3), R(8)]
            else:
                ch = [R(3)]
            fault = gen_fault(rng, knobs, kd == 'W') if kd in ('W', 'R') else None
            ops.append([kd, ch, fault])
        return ops

    def __init__(self, ctx):
        StoreMachine.__init__(self, ctx)
        import t2data
        import t2grids
        self.td, self.tg = t2data, t2grids

    # ---- StoreMachine interface
    def files_of(self, name, cfg):
        fs = [name + '.dat']
        if cfg.get('mesh') == 'ascii':
            fs.append(name + '.MESH')
        elif cfg.get('mesh') == 'binary':
            fs += [name + '.MESHA', name + '.MESHB']
        if cfg.get('xp'):
            fs.append(name + '.pdat')
        return fs

    def mesharg(self, name, cfg):
        if cfg.get('mesh') == 'ascii':
            return self.path(name + '.MESH')
        if cfg.get('mesh') == 'binary':
            return (self.path(name + '.MESHA'), self.path(name + '.MESHB'))
        return ''

    def snap(self, dat):
        return snap_data(dat)

    def write(self, obj, name, cfg):
        kw = {}
        if obj.type == 'AUTOUGH2' and cfg.get('xp_arg') is not None:
            kw['extra_precision'] = cfg['xp_arg']
        if obj.type == 'AUTOUGH2' and cfg.get('echo_arg') is not None:
            kw['echo_extra_precision'] = cfg['echo_arg']
        obj.meshfilename = ''
        obj.write(self.path(name + '.dat'), meshfilename=self.mesharg(name, cfg), **kw)

    def read(self, name, cfg, reuse=None):
        self._cur_cfg = cfg
        kw = {}
        if cfg.get('fortran'):
            from fixed_format_file import fortran_read_function
            kw['read_function'] = fortran_read_function
        if reuse is not None:
            # a long-lived data object reads another file (documented: dat.read(filename))
            if kw:
                reuse.read_function = kw['read_function']
            else:
                from fixed_format_file import default_read_function
                reuse.read_function = default_read_function
            reuse.read(self.path(name + '.dat'), meshfilename=self.mesharg(name, cfg))
            return reuse
        return self.td.t2data(self.path(name + '.dat'), meshfilename=self.mesharg(name, cfg), **kw)

    def compare(self, want, got, cfg, what):
        try:
            compare_data(want, got, cfg, what)
        except Violation as v:
            xp = cfg.get('xp') or []
            if cfg.get('reinsert_risk') and v.check in ('O1.short', 'O1.foft', 'O1.coft',
                                                        'O1.goft', 'O1.sections'):
                v.key = 'permuted-sections+xp-reinsert'
            elif cfg.get('coft_risk') and v.check == 'O1.coft':
                v.key = 'xp:ELEME+COFT-before-CONNE'
            elif cfg.get('mesh') not in (None, 'infile') and \
                    (('ELEME' in xp) != ('CONNE' in xp)) and v.check in ('O1.conne', 'O1.eleme'):
                v.key = 'xp:mesh-file+ELEME-xor-CONNE'
            raise

    def cfg_fp(self, cfg):
        return (cfg.get('mesh'), tuple(cfg.get('xp') or ()), cfg.get('echo_off'))

    KEYWORDS = ('SIMUL', 'ROCKS', 'PARAM', 'MOMOP', 'START', 'NOVER', 'RPCAP', 'LINEQ', 'SOLVR',
                'MULTI', 'TIMES', 'SELEC', 'DIFFU', 'ELEME', 'CONNE', 'MESHM', 'GENER', 'SHORT',
                'FOFT', 'COFT', 'GOFT', 'INCON', 'INDOM', 'ENDCY', 'ENDFI')

    @staticmethod
    def expected_lines(want):
        """Number of record lines each section must have in a file, from the TOUGH2 input format
        (4 or 8 values per line, one blank line closing a list section) -- the harness's own
        count, independent of the writer."""
        def cdiv(a, b):
            return -(-a // b)
        e = {}
        e['ROCKS'] = sum(1 + (1 if r['nad'] >= 1 else 0) + (2 if r['nad'] >= 2 else 0)
                         for r in want['rocks']) + 1
        p = want['param']
        nts = -int(p['const_timestep']) if (p['const_timestep'] or 0.0) < 0 else 0
        e['PARAM'] = 2 + nts + 1 + max(1, cdiv(len(p['default_incons']), 4))
        e['MOMOP'], e['RPCAP'], e['LINEQ'], e['SOLVR'], e['MULTI'] = 1, 2, 1, 1, 1
        e['START'], e['NOVER'] = 0, 0
        if want['times']:
            e['TIMES'] = 1 + cdiv(want['times']['num_times_specified'], 8)
        if want['selection']:
            e['SELEC'] = 1 + (want['selection'][0][0] or 0)
        e['DIFFU'] = len(want['diffusion'])
        e['ELEME'] = len(want['blocks']) + 1
        e['CONNE'] = len(want['connections']) + 1
        n = 0
        for g in want['generators']:
            nt = abs(g['ltab']) if (g['ltab'] and g['type'] != 'DELV') else 1
            n += 1
            if nt > 1:
                n += cdiv(nt, 4) * (3 if g['enthalpy'] else 2)
        e['GENER'] = n + 1
        e['INCON'] = 2 * len(want['incon']) + 1
        e['INDOM'] = 2 * len(want['indom']) + 1
        e['FOFT'] = len(want['foft']) + 1
        e['COFT'] = len(want['coft']) + 1
        e['GOFT'] = len(want['goft']) + 1
        return e

    def after_write(self, name, cfg, want):
        """O-lines: an independent scan of the written files: every section has the number of
        record lines the format prescribes (a writer and a reader that agree with each other
        on a different layout would pass the round trip but not this)."""
        fs = self.ctx.fs
        exp = self.expected_lines(want)
        for fname in self.files_of(name, cfg):
            if fname.endswith(('MESHA', 'MESHB')):
                continue
            data = fs.files.get(fname)
            if data is None:
                continue
            lines = data.decode('utf-8', 'replace').split('\n')
            if lines and lines[-1] == '':
                lines.pop()
            start = 0 if fname.endswith(('.pdat', '.MESH')) else 1       # title line
            cur, count, found = None, 0, []
            def close():
                if cur is not None:
                    found.append((cur, count))
            for l in lines[start:]:
                kw = l[0:5].strip()
                is_kw = kw in self.KEYWORDS and (cur is None or l.strip() == kw or
                                                 kw in ('SHORT', 'MESHM'))
                if is_kw and not (cur in ('SHORT',) and kw in ('ELEME', 'CONNE', 'GENER')):
                    close()
                    cur, count = kw, 0
                elif cur is not None:
                    count += 1
            close()
            for kw, cnt in found:
                if kw in exp and kw not in ('SHORT', 'MESHM') and cnt != exp[kw]:
                    # a pdat / MESH file ends without the ENDCY line: same counts apply
                    raise Violation('O-lines', 'file %s: section %s has %d record lines, the '
                                    'format prescribes %d for this content' % (fname, kw, cnt,
                                                                               exp[kw]))
            self.ctx.probes['sections_line_counted'] += len(found)

    def o2_key(self, cfg):
        return '-'

    def o6_view(self, snap):
        # write() itself brings the list of main-file sections up to date before writing and
        # takes un-echoed extra-precision sections out of it afterwards; an interrupted write
        # leaves that list in between, and the next write starts by bringing it up to date again
        v = dict(snap)
        v['sections'] = []
        return v

    def exc_key(self, what, e):
        cfg = getattr(self, '_cur_cfg', None) or {}
        xp = cfg.get('xp') or []
        if 'Unknown rocktype' in str(e) and 'ELEME' in xp and 'ROCKS' not in xp:
            return 'xp:ELEME-without-ROCKS'
        if isinstance(e, KeyError) and 'CONNE' in xp and 'ELEME' not in xp:
            return 'xp:CONNE-without-ELEME'
        if cfg.get('mesh') not in (None, 'infile') and (('ELEME' in xp) != ('CONNE' in xp)):
            return 'xp:mesh-file+ELEME-xor-CONNE'
        return '-'

    # ---- ops
    def apply(self, op):
        kind, ch, fault = op[0], list(op[1]) + [0] * 6, (op[2] if len(op) > 2 else None)
        ctx = self.ctx
        ctx.stats['op_' + kind] += 1
        if kind == 'NEW':
            slot, sub, flags, size = ch[:4]
            dat = build_data((self.td, self.tg), sub, flags, size % 4)
            self.objs[slot % self.SLOTS] = dat
            ctx.fp.append(('N', flags & 1, bin(flags).count('1') // 4, size % 4))
            ctx.digest.add('NEW', sub, flags)
        elif kind == 'MUTATE':
            self.mutate(ch)
        elif kind == 'PERMUTE':
            self.permute(ch)
        elif kind == 'W':
            slot, ni, mm, xpc, echoc, xps = ch[:6]
            slot = self.pick_slot(slot)
            dat = self.objs.get(slot)
            if dat is None:
                ctx.stats['skip_W_noobj'] += 1
                return
            cfg = self.make_cfg(dat, mm, xpc, echoc, xps)
            if cfg is None:
                ctx.stats['skip_W_domain'] += 1
                return
            name = self.NAMES[ni % len(self.NAMES)]
            stale = name + '.pdat'
            if not cfg.get('xp') and stale in ctx.fs.files and dat.type == 'AUTOUGH2':
                # a companion left by an earlier write of this name would be read by design
                ctx.probes['pdat_shadowed'] += 1
                ctx.stats['skip_W_shadowed'] += 1
                return
            dat.update_sections()
            cfg['present'] = list(dat._sections)
            # known finding D18: sections that return from the companion file to the main file
            # are re-inserted by a heuristic that knows only the canonical order
            canon = [k for k in self.td.t2data_sections if k in dat._sections]
            old_xp = list(dat.extra_precision)
            back = (set(old_xp) - set(cfg['xp'])) or \
                (old_xp and not dat.echo_extra_precision and not cfg['echo_off'])
            cfg['reinsert_risk'] = bool(back) and (dat._sections != canon or
                                                   set(old_xp) - set(dat._sections))
            # known finding D24: history connections listed before CONNE while the blocks come
            # from the companion file (the grid is then not empty when COFT is read)
            secs = list(dat._sections)
            cfg['coft_risk'] = cfg['mesh'] == 'infile' and 'ELEME' in cfg['xp'] and \
                'COFT' in secs and 'CONNE' in secs and secs.index('COFT') < secs.index('CONNE')
            self.do_write(slot, name, cfg, fault)
        elif kind == 'R':
            reuse = None
            slot = None if ch[1] % 4 == 3 else ch[1] % 4
            if ch[1] >= 4 and self.objs:
                slot = self.pick_slot(ch[1])
                reuse = self.objs[slot]
            self.do_read(self.pick_name(ch[0]), slot, fault, reuse=reuse)
        elif kind == 'CYCLE':
            self.do_cycle(self.pick_name(ch[0]))
        elif kind == 'SHIPPED':
            self.shipped(ch)
        elif kind == 'FOREIGN':
            self.foreign(ch)
        elif kind == 'CRASH':
            self.do_crash()
        else:
            raise ValueError(kind)

    def make_cfg(self, dat, mm, xpc, echoc, xps):
        """Write configuration within the property's domain (mesh mode, extra precision)."""
        cfg = {'mesh': MESH_MODES[mm % 4]}
        g = dat.grid
        if cfg['mesh'] != 'infile':
            if dat.short_output:
                return None       # resolved against the grid while reading: in-file mesh only
            if g.num_blocks == 0:
                return None
        if cfg['mesh'] == 'binary':
            if any(b.centre is None for b in g.blocklist):
                return None       # the binary writer needs every centre (fails loudly otherwise)
            if any(b.nseq or b.nadd for b in g.blocklist) or \
                    any(c.nseq or c.nad1 or c.nad2 for c in g.connectionlist):
                return None       # not carried by the binary files
        cfg['xp'], cfg['xp_arg'], cfg['echo_arg'], cfg['echo_off'] = [], None, None, False
        if dat.type == 'AUTOUGH2':
            mode = xpc % 6
            allx = ['ROCKS', 'ELEME', 'CONNE', 'RPCAP', 'GENER']
            if mode == 0:
                cfg['xp_arg'] = None
            elif mode == 1:
                cfg['xp_arg'] = False
            elif mode in (2, 3):
                cfg['xp_arg'] = True
            else:
                sub = [s for b, s in enumerate(allx) if xps >> b & 1] or ['ROCKS']
                cfg['xp_arg'] = sub
            eff = cfg['xp_arg']
            if eff is None:
                eff = list(dat.extra_precision)
            elif eff is True:
                eff = list(allx)
            elif eff is False:
                eff = []
            cfg['xp'] = list(eff)
            if eff:
                cfg['echo_arg'] = (None, True, False)[echoc % 3]
                echo = dat.echo_extra_precision if cfg['echo_arg'] is None else cfg['echo_arg']
                cfg['echo_off'] = not echo
                if cfg['mesh'] != 'infile' and ('ELEME' in eff or 'CONNE' in eff) and echo:
                    return None   # echoed mesh sections have no main-file place next to a mesh
                                  # file: not a configuration the property lists
        return cfg

    def mutate(self, ch):
        ctx = self.ctx
        dat = self.objs.get(self.pick_slot(ch[0]))
        if dat is None:
            ctx.stats['skip_MUTATE'] += 1
            return
        rng = random.Random(H('mutate', ch[1]))
        what = ch[2] % 11
        g = dat.grid
        if what == 0 and g.rocktypelist:
            rt = rng.choice(g.rocktypelist)
            rt.porosity = val(rng, 'e10.4')
            if dat.type == 'AUTOUGH2':      # representable in the companion's 15.8e (see xval)
                rt.porosity = float('%.8e' % rt.porosity)
        elif what == 1 and dat.generatorlist:
            gen = rng.choice(dat.generatorlist)
            dat.delete_generator((gen.block, gen.name))
            so = dat.short_output.get('generator')
            if so is not None:       # a deleted generator is not left in the short-output list
                so[:] = [x for x in so if x is not gen]
        elif what == 2 and g.blocklist:
            gen = self.td.t2generator(gen_name(rng), rng.choice(g.blocklist).name,
                                      gx=val(rng, 'e10.3'))
            if (gen.block, gen.name) not in dat.generator:
                dat.add_generator(gen)
        elif what == 3:
            dat.parameter['default_incons'] = [val(rng, 'e20.14')
                                               for _ in range(rng.choice((0, 1, 4, 5, 8, 9, 12)))]
        elif what == 4:
            dat.start = not dat.start
        elif what == 5 and dat.output_times:
            dat.output_times = {}
        elif what == 6 and g.rocktypelist:
            g.sort_rocktypes()
        elif what == 7 and g.rocktypelist:
            rt = rng.choice(g.rocktypelist)
            new = rockname(rng, set(g.rocktype))
            if rt.name not in dat.indom:
                g.rename_rocktype(rt.name, new)
        elif what == 8 and g.blocklist:
            names = [b.name for b in g.blocklist]
            rng.shuffle(names)
            g.reorder(names)
        elif what == 9 and g.blocklist:
            g.demote_block(rng.choice(g.blocklist).name)
        elif what == 10 and dat.type == 'TOUGH2' and not dat.solver:
            # the model is given to the other flavour by naming a simulator (SIMUL section)
            dat.simulator = 'AUTOUGH2.2'
            quantize_xp(dat)
            if dat.multi:
                dat.multi.pop('num_inc', None)
                dat.multi['eos'] = 'EW'
            ctx.probes['flavour_switched_to_AUTOUGH2'] += 1
        ctx.fp.append(('M', what))
        ctx.digest.add('MUTATE', what)

    def permute(self, ch):
        """A different legal order of the sections (as a file from another party may have)."""
        ctx = self.ctx
        dat = self.objs.get(self.pick_slot(ch[0]))
        if dat is None:
            ctx.stats['skip_PERMUTE'] += 1
            return
        rng = random.Random(H('permute', ch[1]))
        dat.update_sections()
        secs = list(dat._sections)
        before = [('ROCKS', 'ELEME'), ('ELEME', 'CONNE'), ('CONNE', 'SHORT'), ('CONNE', 'FOFT'),
                  ('CONNE', 'COFT'), ('CONNE', 'GOFT'), ('GENER', 'SHORT'), ('MULTI', 'DIFFU'),
                  ('ELEME', 'GENER'), ('ELEME', 'INCON'), ('ROCKS', 'INDOM')]
        for _ in range(20):
            cand = list(secs)
            rng.shuffle(cand)
            if 'SIMUL' in cand:
                cand.remove('SIMUL')
                cand.insert(0, 'SIMUL')
            if all(cand.index(a) < cand.index(b) for a, b in before if a in cand and b in cand):
                dat._sections = cand
                ctx.probes['sections_permuted'] += 1
                break
        if dat.type == 'TOUGH2' and not dat.solver and rng.random() < 0.35:
            # ... and the model is handed to the other flavour by naming a simulator: the SIMUL
            # section has to come first wherever the others are
            dat.simulator = 'AUTOUGH2.2'
            quantize_xp(dat)
            if dat.multi:
                dat.multi.pop('num_inc', None)
                dat.multi['eos'] = 'EW'
            ctx.probes['flavour_switched_to_AUTOUGH2'] += 1
        ctx.fp.append(('P',))
        ctx.digest.add('PERMUTE', dat._sections)

    def foreign(self, ch):
        """Another party re-emits an acknowledged model Fortran style, value for value: upper-case
        (or D) exponent letters, lines padded to 80 columns or stripped of trailing blanks, CR-LF
        line ends.  The model it carries is the same; the reader must give the same object, and
        from the first re-write on the fixpoint."""
        ctx = self.ctx
        src = self.pick_name(ch[0])
        r = self.ref.get(src)
        if r is None or r['state'] != 'ack' or r['cfg'].get('mesh') == 'binary':
            ctx.stats['skip_FOREIGN'] += 1
            return
        style = ch[2] % 8
        letter = 'D' if style & 1 else 'E'
        pad = style & 2
        crlf = style & 4
        cfg = dict(r['cfg'])
        cfg['foreign'] = True
        cfg['fortran'] = True          # the documented reader for Fortran-written numbers
        dst = self.NAMES[ch[1] % len(self.NAMES)]
        if dst == src:
            ctx.stats['skip_FOREIGN'] += 1
            return
        num = re.compile(r'(?<=[0-9])e(?=[+-][0-9]{2})')
        for f_src, f_dst in zip(self.files_of(src, cfg), self.files_of(dst, cfg)):
            data = ctx.fs.files.get(f_src)
            if data is None:
                ctx.stats['skip_FOREIGN'] += 1
                return
            out = []
            for k, line in enumerate(data.decode('utf-8').replace('\r\n', '\n').split('\n')):
                if not (k == 0 and f_src.endswith('.dat')):          # not the title line
                    line = num.sub(letter, line)
                line = line.ljust(80) if (pad and line.strip()) else line.rstrip(' ') \
                    if not pad else line
                out.append(line)
            ctx.fs.put(f_dst, ('\r\n' if crlf else '\n').join(out).encode())
        for stale in ('.pdat', '.MESH', '.MESHA', '.MESHB'):
            if dst + stale not in self.files_of(dst, cfg):
                ctx.fs.files.pop(dst + stale, None)
        snap = r['snap']
        if r.get('shipped'):
            # a real simulator input file may hold numbers only the Fortran reader understands
            # ('- 5.0' in AUTOUGH2/1): what the re-emission carries is what that reader makes of
            # the original text, not what the default reader made of it
            ctx.fs.begin_op(self.STEP_BUDGET)
            try:
                snap = snap_data(self.read(src, cfg))
            except Exception as e:
                raise Violation('EXC', 'reading shipped data file %r with fortran_read_function '
                                'raised %s' % (src, _short_tb(e)))
            ctx.probes['foreign_of_shipped'] += 1
        self.ref[dst] = {'state': 'ack', 'snap': snap, 'cfg': cfg,
                         'files': self.files_of(dst, cfg), 'foreign': True,
                         'shipped': r.get('shipped')}
        ctx.state_changes += 1
        ctx.probes['foreign_fortran_style_%s%s%s' % (letter, 'p' if pad else 's',
                                                      'c' if crlf else '')] += 1
        ctx.fp.append(('F', style))
        ctx.digest.add('FOREIGN', src, dst, style)

    def shipped(self, ch):
        """One of the real data files under tests/data, with its companions, put into the
        directory by "another party".  Checked: a first read, then the fixpoint cycle."""
        ctx = self.ctx
        sets = [('TOUGH2/1', 'r1q', 'MESH'), ('TOUGH2/2', 'eos7c.dat', None),
                ('TOUGH2-MP/1', 'rfp_nomesh', ('MESHA', 'MESHB'))]
        if ctx.knobs.get('tier') == 'thorough':
            sets += [('AUTOUGH2/1', None, None), ('AUTOUGH2/2', None, None),
                     ('AUTOUGH2/3', None, None)]
        d, main, mesh = sets[ch[1] % len(sets)]
        if len(sets) == 3 and ch[1] % 6 == 5 and ch[0] % 3 == 2:
            # the quick tier sees the smallest of the big AUTOUGH2 files now and then (it holds
            # numbers like '- 5.0' and 5-character block names of every kind)
            d, main, mesh = 'AUTOUGH2/1', None, None
        base = os.path.join(REPO, 'tests', 'data', d)
        files = sorted(os.listdir(base))
        if main is None:
            main = [f for f in files if f.endswith('.dat')][0]
        name = self.NAMES[ch[0] % len(self.NAMES)]
        cfg = {'mesh': 'infile', 'xp': [], 'foreign': True, 'present': []}
        ctx.fs.put(name + '.dat', fbytes(d + '/' + main))
        if isinstance(mesh, str):
            ctx.fs.put(name + '.MESH', fbytes(d + '/' + mesh))
            cfg['mesh'] = 'ascii'
        elif mesh:
            ctx.fs.put(name + '.MESHA', fbytes(d + '/' + mesh[0]))
            ctx.fs.put(name + '.MESHB', fbytes(d + '/' + mesh[1]))
            cfg['mesh'] = 'binary'
        pd = [f for f in files if f.lower().endswith('.pdat')]
        ctx.fs.files.pop(name + '.pdat', None)
        if pd:
            ctx.fs.put(name + '.pdat', fbytes(d + '/' + pd[0]))
        ctx.fs.begin_op(self.STEP_BUDGET)
        try:
            dat = self.read(name, cfg)
        except Exception as e:
            from ..engine import _short_tb
            raise Violation('EXC', 'reading shipped data file %s/%s raised %s' % (d, main,
                                                                                   _short_tb(e)))
        cfg['xp'] = list(dat.extra_precision)
        cfg['echo_off'] = bool(cfg['xp']) and not dat.echo_extra_precision
        cfg['present'] = list(dat._sections)
        self.ref[name] = {'state': 'ack', 'snap': snap_data(dat), 'cfg': cfg,
                          'files': self.files_of(name, cfg), 'foreign': True, 'shipped': True}
        ctx.state_changes += 1
        ctx.probes['shipped_data_' + d] += 1
        ctx.fp.append(('S', d))
        ctx.digest.add('SHIPPED', d)
