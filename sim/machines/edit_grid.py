"""C08 / C09 — t2grid under edit histories (machine `edit`, component t2grid).

The real t2grid is driven by an op history; a small reference graph model (dicts of plain data)
is advanced by the harness's own implementation of each op; after every op the structural
invariants I1-I4 are evaluated on the real object and its content is compared with the model
(I5 for C08: names and pairs; P* for C09: the physical attributes).
"""
import copy
import math
import random

from ..engine import Machine, Violation, _short_tb
from ..seeds import H
from ..simfs import SimCrash, SimBudgetExceeded, ROOT
from .. import fortran as F
from . import geo_build

UNIVERSE = ('  a 1', '  b 1', '  c 1', '  d 1')
ROCKPOOL = ('dfalt', 'rock1', 'rock2', 'ROCK3', 'gran4', 'sand5', '    2', '    1', '   10')
LET = 'abcdefghijklmnopqrstuvwxyz'


def canon_name(name):
    """The form a block name has after one write/read cycle (the simulator's (a3,i2) quirk):
    the harness's own statement of unfix-then-fix."""
    w = name
    if name[3:5].isdigit():
        w = '%3s%2d' % (name[0:3], int(name[3:5]))
    if w[2].isdigit() and w[4].isdigit() and w[3] == ' ':
        w = w[:3] + '0' + w[4]
    return w


def pool_name(k):
    """k-th name of a pool that cannot collide with geometry or MINC names.  One name in four
    differs from another pool name only in its first character (q/r/s...), which is what the
    default MINC matrix-block naming overwrites."""
    k %= 26 * 26 * 90
    first = 'qrst'[(k // 7) % 4] if k % 4 == 0 else 'q'
    if k % 9 == 3:
        # punctuation in the first three characters is a valid block name too
        return ('+' if (k // 9) % 2 else ':') + LET[(k // 90) % 26] + LET[(k // (90 * 26)) % 26] + \
            '%2d' % (10 + k % 90)
    if k % 9 == 5:
        # a zero-padded number after a letter: written with a blank by the (a3,i2) quirk
        return first + LET[(k // 90) % 26] + LET[(k // (90 * 26)) % 26] + '0%d' % (k % 10)
    if k % 9 == 7:
        # a digit in column 3 and a number below ten: 'qa105' is printed 'qa1 5' by the simulator
        return first + LET[(k // 90) % 26] + '%d' % ((k // 13) % 10) + '0%d' % (k % 10)
    return first + LET[(k // 90) % 26] + LET[(k // (90 * 26)) % 26] + '%2d' % (10 + k % 90)


class Model(object):
    """Reference graph: plain data only."""

    def __init__(self):
        self.b = {}      # name -> [volume, rock name, centre tuple|None]
        self.c = {}      # (first, second) -> dict(first, second, area, direction, dist{}, dircos)
        self.r = set()   # registered rock type names

    def copy(self):
        m = Model()
        m.b = dict((k, list(v)) for k, v in self.b.items())
        m.c = dict((k, dict(v, dist=dict(v['dist']))) for k, v in self.c.items())
        m.r = set(self.r)
        return m


def centre_t(c):
    return None if c is None else tuple(float(x) for x in c)


def extract(grid):
    """Plain-data content of a real grid (reads lists, not lookups)."""
    m = Model()
    for blk in grid.blocklist:
        m.b[blk.name] = [blk.volume, blk.rocktype.name, centre_t(blk.centre)]
    for con in grid.connectionlist:
        a, b = con.block[0].name, con.block[1].name
        m.c[(a, b)] = {
            'first': a, 'second': b, 'area': con.area, 'direction': con.direction,
            'dist': {a: con.distance[0], b: con.distance[1]}, 'dircos': con.dircos}
    m.r = set(rt.name for rt in grid.rocktypelist)
    return m


def check_structure(grid, alias_ok=None):
    """I1-I4 on the real object.  Raises Violation.  `alias_ok`: rock type names whose blocks
    may hold an equal-named object other than the registered one (left so by t2grid.__add__ on
    the unmodified tree; see DESIGN 8.3, probes) - None switches the identity reading of I4 off."""
    # I1 lookups and lists describe the same objects, names unique, keys current
    for what, lst, dct, key in (
            ('block', grid.blocklist, grid.block, lambda o: o.name),
            ('rocktype', grid.rocktypelist, grid.rocktype, lambda o: o.name),
            ('connection', grid.connectionlist, grid.connection,
             lambda o: tuple(b.name for b in o.block))):
        keys = [key(o) for o in lst]
        if len(set(keys)) != len(keys):
            dup = sorted(set(k for k in keys if keys.count(k) > 1))[:3]
            raise Violation('I1', '%s list holds duplicate names %r' % (what, dup))
        if len(dct) != len(lst):
            raise Violation('I1', '%d %ss in the list but %d in the by-name lookup'
                            % (len(lst), what, len(dct)))
        for o, k in zip(lst, keys):
            if dct.get(k) is not o:
                raise Violation('I1', '%s %r of the list is not what the lookup holds under '
                                'its current name' % (what, k))
    # I2 both ends of every connection are blocks of the grid
    for con in grid.connectionlist:
        for b in con.block:
            if grid.block.get(b.name) is not b:
                raise Violation('I2', 'connection %r joins a block object that is not in the grid'
                                % (tuple(x.name for x in con.block),))
    # I3 each block's record of its connections is exactly the set that mention it
    mention = dict((id(b), set()) for b in grid.blocklist)
    for key, con in grid.connection.items():
        for b in con.block:
            if id(b) in mention:
                mention[id(b)].add(key)
    for b in grid.blocklist:
        if set(b.connection_name) != mention[id(b)]:
            extra = sorted(set(b.connection_name) - mention[id(b)])[:2]
            miss = sorted(mention[id(b)] - set(b.connection_name))[:2]
            raise Violation('I3', "block %r records connections %r it is not part of / lacks %r"
                            % (b.name, extra, miss))
    # I4 every block's rock type (by name: weakest reading) is registered
    for b in grid.blocklist:
        if b.rocktype is None or b.rocktype.name not in grid.rocktype:
            raise Violation('I4', 'block %r has rock type %r which the grid does not register'
                            % (b.name, getattr(b.rocktype, 'name', None)))
        if alias_ok is not None and b.rocktype.name not in alias_ok and \
                grid.rocktype[b.rocktype.name] is not b.rocktype:
            raise Violation('I4.object', 'block %r holds a rock type object named %r that is not '
                            'the one the grid registers under that name'
                            % (b.name, b.rocktype.name))


def eq(a, b, digits=None):
    if a is None or b is None:
        return a is None and b is None
    if digits is None:
        return a == b or abs(a - b) <= 1e-12 * max(abs(a), abs(b))
    kind, p = digits
    return F.close_e(a, b, p) if kind == 'e' else F.close_f(a, b, p)


def compare(model, got, physics, digits=False, what=''):
    """Content of the real grid against the reference model."""
    if sorted(model.b) != sorted(got.b):
        lost = sorted(set(model.b) - set(got.b))[:4]
        extra = sorted(set(got.b) - set(model.b))[:4]
        raise Violation('P1' if physics else 'I5', '%sblock set differs from the reference model: '
                        'lost %r, unexpected %r' % (what, lost, extra))
    # a connection may have been re-listed with its blocks swapped (reorder): same connection
    pairing = {}
    for k in model.c:
        if k in got.c:
            pairing[k] = k
        elif k[::-1] in got.c and k[::-1] not in model.c:
            pairing[k] = k[::-1]
    if len(pairing) != len(model.c) or len(got.c) != len(model.c):
        lost = sorted(k for k in model.c if k not in pairing)[:3]
        extra = sorted(set(got.c) - set(pairing.values()))[:3]
        raise Violation('P2' if physics else 'I5', '%sconnections differ from the reference '
                        'model: lost %r, unexpected %r' % (what, lost, extra))
    if not physics:
        if model.r != got.r:
            raise Violation('I5', '%srock type names %r, reference model has %r'
                            % (what, sorted(got.r), sorted(model.r)))
        return
    dv = ('e', 4) if digits else None
    dc = ('e', 3) if digits else None
    dd = ('f', 7) if digits else None
    for n, (vol, rock, cen) in model.b.items():
        gv, gr, gc = got.b[n]
        if not eq(vol, gv, dv):
            raise Violation('P1', '%sblock %r volume %r, expected %r' % (what, n, gv, vol))
        if rock != gr:
            raise Violation('P1', '%sblock %r rock type %r, expected %r' % (what, n, gr, rock))
        if (cen is None) != (gc is None) or (cen is not None and
                                             not all(eq(x, y, dc) for x, y in zip(cen, gc))):
            raise Violation('P1', '%sblock %r centre %r, expected %r' % (what, n, gc, cen))
    for k, mc in model.c.items():
        gc = got.c[pairing[k]]
        pair = tuple(sorted(k))
        if not eq(mc['area'], gc['area'], dv):
            raise Violation('P2', '%sconnection %r area %r, expected %r'
                            % (what, pair, gc['area'], mc['area']))
        if mc['direction'] != gc['direction']:
            raise Violation('P2', '%sconnection %r permeability direction %r, expected %r'
                            % (what, pair, gc['direction'], mc['direction']))
        for n in k:
            if not eq(mc['dist'][n], gc['dist'].get(n), dv):
                raise Violation('P3', "%sconnection %r: block %r's own distance to the interface "
                                'is %r, expected %r' % (what, pair, n, gc['dist'].get(n),
                                                        mc['dist'][n]))
        want = mc['dircos']
        if want is not None and mc['first'] != gc['first']:
            want = -want
        if not eq(want, gc['dircos'], dd):
            raise Violation('P4', '%sconnection %r listed %r->%r has gravity cosine %r, expected '
                            '%r (it was %r for %r->%r)'
                            % (what, pair, gc['first'], gc['second'], gc['dircos'], want,
                               mc['dircos'], mc['first'], mc['second']))


class GridMachineBase(Machine):
    PROP = 'C08'
    PHYSICS = False
    OPS = ('ADD_BLOCK', 'DEL_BLOCK', 'ADD_CON', 'DEL_CON', 'ADD_ROCK', 'DEL_ROCK',
           'RENAME_ROCK', 'RENAME', 'REORDER', 'DEMOTE', 'CLEAN_ROCK', 'SET_ROCK', 'MINC',
           'ADD_GRID', 'EMBED', 'PERSIST', 'CALC_CENTRES', 'REORDER_BAD', 'ADD_BLOCK_SAME', 'INIT')

    @classmethod
    def knobs(cls, rng, tier):
        k = {'tier': tier}
        k['universe'] = rng.random() < (0.35 if not cls.PHYSICS else 0.1)
        k['size'] = rng.choice((1, 2, 2, 3, 3, 4, 5, 6))
        w = {op: (rng.random() if rng.random() < 0.8 else 0.0) for op in cls.OPS}
        w['INIT'] = 0.03
        w['PERSIST'] *= 0.3
        w['MINC'] *= 0.4
        if cls.PHYSICS:
            for op in ('ADD_BLOCK', 'DEL_BLOCK', 'DEL_CON', 'ADD_ROCK', 'DEL_ROCK',
                       'RENAME_ROCK', 'CLEAN_ROCK', 'ADD_GRID'):
                w[op] = 0.0
            w['ADD_CON'] *= 0.4        # (starting grids with a second, reversed connection)
            w['REORDER'] = max(w['REORDER'], 0.5)
            w['RENAME'] = max(w['RENAME'], 0.4)
            w['PERSIST'] = max(w['PERSIST'], 0.15)
        k['weights'] = w
        k['nops'] = rng.choice((3, 5, 8, 12, 20, 30, 60)) if not cls.PHYSICS \
            else rng.choice((2, 3, 5, 8, 12))
        k['bufsize'] = rng.choice((16, 8192, None))
        return k

    @classmethod
    def generate(cls, rng, knobs):
        R = rng.randrange
        big = 10 ** 6
        ops = [['INIT', [R(big), R(big), 1 + R(knobs['size']), 1 + R(knobs['size']),
                         1 + R(min(4, knobs['size'])), R(3), R(3)], None]]
        kinds = [o for o in cls.OPS if knobs['weights'][o] > 0]
        wts = [knobs['weights'][o] for o in kinds]
        for _ in range(knobs['nops']):
            kd = rng.choices(kinds, wts)[0]
            if kd == 'INIT':
                ch = [R(big), R(big), 1 + R(knobs['size']), 1 + R(knobs['size']),
                      1 + R(min(4, knobs['size'])), R(3), R(3)]
            else:
                ch = [R(big) for _ in range(4)]
            ops.append([kd, ch, None])
        return ops

    def __init__(self, ctx):
        Machine.__init__(self, ctx)
        import t2grids
        import t2data
        import mulgrids
        self.tg, self.td, self.mg = t2grids, t2data, mulgrids
        self.grid = None
        self.geo = None
        self.geo_valid = False
        self.model = None
        self.universe = bool(ctx.knobs.get('universe'))

    # ------------------------------------------------------------------ helpers
    def fresh_block_name(self, c):
        g = self.grid
        if self.universe:
            free = [n for n in UNIVERSE if n not in g.block]
            return free[c % len(free)] if free else None
        for k in range(50):
            n = pool_name(c + k)
            if n not in g.block:
                return n
        return None

    def fresh_rock_name(self, c):
        free = [n for n in ROCKPOOL if n not in self.grid.rocktype]
        return free[c % len(free)] if free else None

    def small_grid(self, sub, prefix, n):
        """A little stand-alone grid with names that cannot collide with the main grid."""
        tg = self.tg
        rng = random.Random(H('small', sub))
        g = tg.t2grid()
        rk = tg.rocktype(rng.choice(('dfalt', 'emb_1', 'emb_2')))
        g.add_rocktype(rk)
        blks = []
        for i in range(max(1, n)):
            b = tg.t2block('%s%s%s%2d' % (prefix, LET[i % 26], LET[(i // 26) % 26], 10 + i % 90),
                           rng.choice((1.0, 2.5, 10.0, 0.125)), rk,
                           centre=[float(i), rng.choice((0.0, 1.5)), -1.0],
                           atmosphere=(i == 0 and sub % 3 == 0))
            g.add_block(b)
            blks.append(b)
        for i in range(len(blks) - 1):
            g.add_connection(tg.t2connection([blks[i], blks[i + 1]], rng.choice((1, 2, 3)),
                                             [rng.choice((0.5, 1.25)), rng.choice((0.5, 2.0))],
                                             rng.choice((1.0, 3.0)), rng.choice((0.0, -1.0, 1.0))))
        return g

    def call(self, fn, what):
        try:
            return fn()
        except Violation:
            raise
        except (SimCrash, SimBudgetExceeded):
            raise
        except Exception as e:
            raise Violation('EXC', '%s raised %s' % (what, _short_tb(e)))

    def verify(self, what, digits=False):
        ctx = self.ctx
        # (the physics of C09 is read off the ordered lists; they only mean something while
        # lists, lookups and back-references describe one graph, so C09 evaluates I1-I4 too)
        check_structure(self.grid, getattr(self, 'alias_ok', None))
        got = extract(self.grid)
        compare(self.model, got, self.PHYSICS, digits, what + ': ')
        # equivalent content confirmed: continue from the real object's own representation
        # (orientation of reversed connections, values rounded by a file round trip)
        self.model = got
        ctx.digest.add(what, sorted(got.b.items()),
                       sorted(((tuple(sorted(k)), sorted(v['dist'].items()), v['area'],
                                v['dircos'], v['first']) for k, v in got.c.items()), key=repr),
                       [b.name for b in self.grid.blocklist],
                       [tuple(x.name for x in c.block) for c in self.grid.connectionlist],
                       sorted(got.r))

    # ------------------------------------------------------------------ ops
    def apply(self, op):
        kind, ch = op[0], list(op[1]) + [0] * 8
        ctx = self.ctx
        if self.grid is None and kind not in ('INIT', 'XINIT'):
            ctx.stats['skip_noinit'] += 1
            return
        done = getattr(self, 'op_' + kind)(ch)
        if done is False:
            ctx.stats['skip_' + kind] += 1
            return
        ctx.stats['op_' + kind] += 1
        ctx.state_changes += 1
        ctx.fp.append((kind, done if isinstance(done, (str, int, tuple)) else 0))
        self.verify(kind, digits=(kind == 'PERSIST'))

    def op_INIT(self, ch):
        tg = self.tg
        sub, sub2, nx, ny, nz, atm, conv = ch[:7]
        rng = random.Random(H('init', sub))
        if self.universe:
            g = tg.t2grid()
            # (a rock type may be named by a number that is not its position in the list)
            rks = [tg.rocktype('dfalt'), tg.rocktype(rng.choice(('rock1', 'rock1', '    1',
                                                                 '    3')))]
            for r in rks:
                g.add_rocktype(r)
            names = [n for n in UNIVERSE if rng.random() < 0.8]
            for n in names:
                g.add_block(tg.t2block(n, rng.choice((1.0, 2.0, 8.0)), rng.choice(rks),
                                       centre=[rng.choice((0., 1.)), 0., rng.choice((-1., -2.))]))
            for i, a in enumerate(names):
                for b in names[i + 1:]:
                    if rng.random() < 0.5:
                        pair = [g.block[a], g.block[b]]
                        if rng.random() < 0.5:
                            pair.reverse()
                        g.add_connection(tg.t2connection(
                            pair, rng.choice((1, 2, 3)), [rng.choice((0.5, 1.0)),
                                                          rng.choice((0.25, 2.0))],
                            rng.choice((1.0, 4.0)), rng.choice((0.0, -1.0, 1.0, 0.6))))
            self.geo, self.geo_valid = None, False
        else:
            mode = sub2 % 10
            if mode < 8:
                geo = geo_build.rect(self.mg, sub, 1 + (nx - 1) % 6, 1 + (ny - 1) % 6,
                                     1 + (nz - 1) % 4, convention=conv % 3, atmos=atm % 3)
                if mode >= 5 and geo.num_layers > 2:
                    # stepped surface on some columns
                    for col in geo.columnlist:
                        if rng.random() < 0.4:
                            lay = geo.layerlist[rng.randrange(1, geo.num_layers - 1)]
                            col.surface = lay.bottom + rng.choice((0.0, 0.4, 1.0)) * \
                                (lay.top - lay.bottom) if rng.random() < .7 else lay.top
                            geo.set_column_num_layers(col)
                    geo.setup_block_name_index()
                    geo.setup_block_connection_name_index()
            else:
                geo = geo_build.toy(self.mg, sub, convention=conv % 3, atmos=atm % 3)
            if sub2 % 4 == 1:
                # the geometry's atmosphere type is changed through its property setter before
                # the grid is generated (reorder(geo=...) later relies on its derived lists)
                geo.atmosphere_type = (geo.atmosphere_type + 1 + sub2 % 2) % 3
                self.ctx.probes['geo_atmosphere_type_changed'] += 1
            g = self.call(lambda: tg.t2grid().fromgeo(geo), 'fromgeo')
            extra = tg.rocktype(rng.choice(('rock1', 'rock1', '    1', '    3')))
            g.add_rocktype(extra)
            for b in g.blocklist:
                if rng.random() < 0.3:
                    b.rocktype = extra
            self.geo, self.geo_valid = geo, True
        self.grid = g
        self.alias_ok = set()
        self.model = extract(g)
        return 'u' if self.universe else 'g'

    def op_ADD_BLOCK(self, ch):
        g = self.grid
        name = self.fresh_block_name(ch[0])
        if name is None or not g.rocktypelist:
            return False
        rock = g.rocktypelist[ch[2] % len(g.rocktypelist)]
        vol = (1.0, 2.5, 1.0e3, 1.0e25, 0.0)[ch[1] % 5]
        centre = None if ch[3] % 3 == 0 else [float(ch[3] % 7), 1.0, -float(ch[3] % 5)]
        self.call(lambda: g.add_block(self.tg.t2block(name, vol, rock, centre=centre)), 'add_block')
        self.model.b[name] = [vol, rock.name, centre_t(centre)]
        self.geo_valid = False

    def op_DEL_BLOCK(self, ch):
        g = self.grid
        if not g.blocklist:
            return False
        name = g.blocklist[ch[0] % len(g.blocklist)].name
        self.call(lambda: g.delete_block(name), 'delete_block')
        del self.model.b[name]
        for k in [k for k in self.model.c if name in k]:
            del self.model.c[k]
        self.geo_valid = False

    def op_ADD_CON(self, ch):
        g = self.grid
        n = len(g.blocklist)
        if n < 2:
            return False
        a = g.blocklist[ch[0] % n]
        b = g.blocklist[ch[1] % n]
        if g.connectionlist and ch[2] % 6 == 5:
            # re-adding a connection between the same two blocks in the same order replaces it
            old = g.connectionlist[ch[0] % len(g.connectionlist)]
            a, b = old.block
            self.ctx.probes['add_connection_replaces'] += 1
        elif g.connectionlist and ch[2] % 6 == 3 and \
                tuple(x.name for x in g.connectionlist[ch[0] % len(g.connectionlist)].block)[::-1] \
                not in self.model.c:
            # a second connection between two connected blocks, listed the other way round
            old = g.connectionlist[ch[0] % len(g.connectionlist)]
            b, a = old.block
            self.ctx.probes['add_connection_parallel_reversed'] += 1
        elif a is b or (a.name, b.name) in self.model.c:
            return False
        elif (b.name, a.name) in self.model.c and ch[2] % 4 != 3:
            return False          # (one time in four: a second connection, listed the other way)
        d = [(0.5, 1.0, 12.5)[ch[2] % 3], (0.25, 2.0, 50.0)[(ch[2] // 3) % 3]]
        area = (1.0, 4.0, 250.0)[ch[3] % 3]
        dircos = (0.0, -1.0, 1.0, 0.6, None)[(ch[3] // 3) % 5]
        direction = 1 + (ch[3] // 15) % 3
        self.call(lambda: g.add_connection(self.tg.t2connection([a, b], direction, list(d), area,
                                                               dircos)), 'add_connection')
        self.model.c[(a.name, b.name)] = {
            'first': a.name, 'second': b.name, 'area': area, 'direction': direction,
            'dist': {a.name: d[0], b.name: d[1]}, 'dircos': dircos}
        self.geo_valid = False

    def op_DEL_CON(self, ch):
        g = self.grid
        if not g.connectionlist:
            return False
        con = g.connectionlist[ch[0] % len(g.connectionlist)]
        key = tuple(b.name for b in con.block)
        if ch[1] % 6 == 5 and key[::-1] not in g.connection:
            # a connection is found under the pair of names in the order it is listed; the
            # reversed pair names no connection of the grid: nothing may change
            self.call(lambda: g.delete_connection(key[::-1]), 'delete_connection(reversed pair)')
            self.ctx.probes['delete_connection_reversed_pair'] += 1
            return 'noop'
        self.call(lambda: g.delete_connection(key), 'delete_connection')
        del self.model.c[tuple(key)]
        self.geo_valid = False

    def op_ADD_ROCK(self, ch):
        name = self.fresh_rock_name(ch[0])
        if name is None:
            return False
        self.call(lambda: self.grid.add_rocktype(self.tg.rocktype(name)), 'add_rocktype')
        self.model.r.add(name)

    def note_aliases(self):
        """After a sum of grids: the names whose blocks hold a replaced rock type object."""
        g = self.grid
        self.alias_ok = set(getattr(self, 'alias_ok', None) or ()) | set(
            b.rocktype.name for b in g.blocklist
            if b.rocktype is not g.rocktype.get(b.rocktype.name))

    def aliased(self, name):
        g = self.grid
        return any(b.rocktype.name == name and b.rocktype is not g.rocktype.get(name)
                   for b in g.blocklist)

    def op_DEL_ROCK(self, ch):
        g = self.grid
        used = set(b.rocktype.name for b in g.blocklist)
        cand = [rt.name for rt in g.rocktypelist if rt.name not in used]
        if not cand:
            return False
        name = cand[ch[0] % len(cand)]
        self.call(lambda: g.delete_rocktype(name), 'delete_rocktype')
        self.model.r.discard(name)

    def op_RENAME_ROCK(self, ch):
        g = self.grid
        if not g.rocktypelist:
            return False
        old = g.rocktypelist[ch[0] % len(g.rocktypelist)].name
        if ch[2] % 5 == 4 and len(g.rocktypelist) >= 2:
            # renaming onto a name already in use, or a name that does not exist, is refused with
            # an exception: the grid must be left as it was
            other = g.rocktypelist[(ch[0] + 1) % len(g.rocktypelist)].name
            a, b = (old, other) if ch[2] % 2 else ('nosuc', 'xxxxx')
            try:
                g.rename_rocktype(a, b)
            except Exception:
                self.ctx.probes['rename_rocktype_refused'] += 1
                return 'refused'
            raise Violation('I5', 'rename_rocktype(%r, %r) was not refused' % (a, b))
        new = self.fresh_rock_name(ch[1])
        if new is None:
            return False
        if self.aliased(old):
            self.ctx.probes['rocktype_alias_blocks_rename'] += 1
            return False
        self.call(lambda: g.rename_rocktype(old, new), 'rename_rocktype')
        self.model.r.discard(old)
        self.model.r.add(new)
        for v in self.model.b.values():
            if v[1] == old:
                v[1] = new

    def op_RENAME(self, ch):
        g = self.grid
        n = len(g.blocklist)
        if n == 0:
            return False
        rng = random.Random(H('rename', ch[2]))
        mode = ch[0] % 4
        k = 2 + ch[1] % max(1, min(n, 6) - 1) if n >= 2 else 1
        picks = rng.sample([b.name for b in g.blocklist], min(k, n))
        mp = {}
        if mode == 0 and len(picks) >= 2:
            a, b = picks[:2]
            mp = {a: b, b: a}
            tag = 'swap'
        elif mode == 1 and len(picks) >= 2:
            for i, a in enumerate(picks):
                mp[a] = picks[(i + 1) % len(picks)]
            tag = 'cycle%d' % min(len(picks), 4)
        elif mode == 2 or len(picks) < 2:
            used = set(g.block)
            for i, a in enumerate(picks):
                for t in range(60):
                    nn = self.fresh_block_name(ch[3] + i * 61 + t)
                    if nn is not None and nn not in used:
                        used.add(nn)
                        mp[a] = nn
                        break
            tag = 'fresh'
        else:
            # chain: a takes b's name, b moves to a fresh name
            a, b = picks[:2]
            nn = self.fresh_block_name(ch[3])
            if nn is None:
                return False
            mp = {a: b, b: nn}
            tag = 'chain'
        if not mp:
            return False
        # one-to-one, image does not collide with an unrenamed block
        if len(set(mp.values())) != len(mp) or \
                any(v in g.block and v not in mp for v in mp.values()):
            return False
        if self.PHYSICS:
            self.ctx.probes['rename_' + tag] += 1
        def onfile(n):
            # the name as the simulator prints it: rename_blocks() documents that it repairs
            # such names in the map it is given
            return '%3s%2d' % (n[0:3], int(n[3:5])) if (n[3:5].isdigit() and n[2].isdigit()) else n
        arg = dict(mp)
        if ch[0] % 8 >= 4 and any(onfile(a) != a or onfile(b) != b for a, b in mp.items()):
            arg = dict((onfile(a), onfile(b)) for a, b in mp.items())
            self.ctx.probes['rename_map_in_on_file_form'] += 1
        if ch[1] % 4 == 3:
            # through the data object that owns the grid (the documented entry point for a model)
            dat = self.td.t2data()
            dat.grid = g
            self.call(lambda: dat.rename_blocks(arg), 't2data.rename_blocks')
            self.ctx.probes['rename_through_t2data'] += 1
        else:
            self.call(lambda: g.rename_blocks(arg), 'rename_blocks')
        m = self.model
        m.b = dict((mp.get(nm, nm), v) for nm, v in m.b.items())
        newc = {}
        for k_, v in m.c.items():
            v = dict(v)
            v['first'], v['second'] = mp.get(v['first'], v['first']), mp.get(v['second'], v['second'])
            v['dist'] = dict((mp.get(nm, nm), d) for nm, d in v['dist'].items())
            newc[(v['first'], v['second'])] = v
        m.c = newc
        self.geo_valid = False
        return tag

    def op_REORDER(self, ch):
        g = self.grid
        rng = random.Random(H('reorder', ch[1]))
        mode = ch[0] % 16
        if mode >= 14 and self.geo_valid and self.geo is not None:
            self.call(lambda: g.reorder(geo=self.geo), 'reorder(geo)')
            return 'geo'
        bn = cn = None
        if mode & 1 and g.blocklist:
            bn = [b.name for b in g.blocklist]
            rng.shuffle(bn)
        nrev = 0
        if mode & 2 and g.connectionlist:
            cn = [tuple(b.name for b in c.block) for c in g.connectionlist]
            rng.shuffle(cn)
            if mode & 4:
                for i in range(len(cn)):
                    if rng.random() < 0.5 and cn[i][::-1] not in g.connection:
                        cn[i] = cn[i][::-1]
                        nrev += 1
        if bn is None and cn is None:
            return False
        self.call(lambda: g.reorder(bn, cn), 'reorder')
        if nrev:
            self.ctx.probes['reorder_reversed_connections'] += 1
        return 'r%d' % min(nrev, 2)

    def op_REORDER_BAD(self, ch):
        """reorder() with a connection the grid does not have (in either orientation) is refused
        with an exception and must leave the grid as it was."""
        g = self.grid
        if len(g.connectionlist) < 2 or len(g.blocklist) < 2:
            return False
        rng = random.Random(H('reorderbad', ch[1]))
        cn = [tuple(b.name for b in c.block) for c in g.connectionlist]
        rng.shuffle(cn)
        names = [b.name for b in g.blocklist]
        ghost = None
        for _ in range(20):
            a, b = rng.choice(names), rng.choice(names)
            if (a, b) not in g.connection and (b, a) not in g.connection:
                ghost = (a, b)
                break
        if ghost is None:
            return False
        cn.insert(1 + ch[0] % len(cn), ghost)
        try:
            g.reorder(None, cn)
        except (SimCrash, SimBudgetExceeded):
            raise
        except Exception:
            self.ctx.probes['reorder_refused'] += 1
            return 'refused'
        raise Violation('I1.refused', 'reorder() accepted the connection %r which the grid does '
                        'not have' % (ghost,))

    def op_ADD_BLOCK_SAME(self, ch):
        """Adding a block object the grid already holds changes nothing."""
        g = self.grid
        if not g.blocklist:
            return False
        blk = g.blocklist[ch[0] % len(g.blocklist)]
        self.call(lambda: g.add_block(blk), 'add_block(block of the grid)')
        self.ctx.probes['add_block_already_in_grid'] += 1

    def op_CALC_CENTRES(self, ch):
        """Block centres recomputed from the geometry the grid was generated from: whatever the
        current order of the blocks, every block keeps its own centre."""
        if not self.geo_valid or self.geo is None:
            return False
        self.call(lambda: self.grid.calculate_block_centres(self.geo), 'calculate_block_centres')
        self.ctx.probes['centres_recalculated'] += 1

    def op_DEMOTE(self, ch):
        g = self.grid
        n = len(g.blocklist)
        if n == 0:
            return False
        names = [g.blocklist[c % n].name for c in ch[:1 + ch[3] % 3]]
        if ch[3] % 5 == 4:
            names = names + names[:1]          # a name may be listed twice
        arg = names[0] if len(names) == 1 and ch[3] % 2 else names
        self.call(lambda: g.demote_block(arg), 'demote_block')

    def op_CLEAN_ROCK(self, ch):
        g = self.grid
        used = set(b.rocktype.name for b in g.blocklist)
        self.call(lambda: g.clean_rocktypes(), 'clean_rocktypes')
        self.model.r &= used

    def op_SET_ROCK(self, ch):
        g = self.grid
        if not g.blocklist or not g.rocktypelist:
            return False
        b = g.blocklist[ch[0] % len(g.blocklist)]
        r = g.rocktypelist[ch[1] % len(g.rocktypelist)]
        b.rocktype = r
        self.model.b[b.name][1] = r.name

    def op_MINC(self, ch):
        g = self.grid
        if not g.blocklist:
            return False
        rng = random.Random(H('minc', ch[2]))
        nf = 2 + ch[0] % 5
        npl = 1 + ch[1] % 3
        vf = [rng.choice((0.05, 0.1, 0.2, 0.3, 0.5, 1.0, 2.0)) for _ in range(nf)]
        if ch[0] % 3 == 0:
            # fractions quoted to a few decimals: sum close to, but not exactly, one
            vf = {2: [0.0999, 0.9], 3: [0.3333] * 3, 4: [0.25, 0.25, 0.25, 0.2499],
                  5: [0.2, 0.2, 0.2, 0.2, 0.2001], 6: [0.1667] * 6}[nf]
        spacing = [rng.choice((10.0, 25.0, 50.0, 100.0)) for _ in range(rng.randint(1, npl))]
        if len(spacing) == 1 and rng.random() < 0.5:
            spacing = spacing[0]
        if ch[3] % 2:
            names = [b.name for b in g.blocklist if rng.random() < 0.5] or [g.blocklist[0].name]
            arg = names if ch[3] % 4 == 1 else [g.block[n] for n in names]
        else:
            names, arg = [b.name for b in g.blocklist], None
        amax = 1.e25
        proc = [n for n in names if 0. < g.block[n].volume < amax]
        if ch[3] % 8 == 7 and len(proc) >= 2 and not self.geo_valid:
            # two of the blocks get names that differ only in the leading character, which the
            # default matrix-block naming overwrites: their matrix blocks would share names
            n1, n2 = proc[0], proc[-1]
            twin = ('q' if n1[0] != 'q' else 'r') + n1[1:]
            if twin not in g.block and canon_name(twin) == twin:
                self.call(lambda: g.rename_blocks({n2: twin}, fix_blocknames=False),
                          'rename_blocks')
                mp = {n2: twin}
                m = self.model
                m.b = dict((mp.get(nm, nm), v) for nm, v in m.b.items())
                newc = {}
                for v in m.c.values():
                    v = dict(v)
                    v['first'], v['second'] = mp.get(v['first'], v['first']), \
                        mp.get(v['second'], v['second'])
                    v['dist'] = dict((mp.get(nm, nm), d) for nm, d in v['dist'].items())
                    newc[(v['first'], v['second'])] = v
                m.c = newc
                names = [mp.get(x, x) for x in names]
                proc = [mp.get(x, x) for x in proc]
                if arg is not None:
                    arg = names if ch[3] % 4 == 1 else [g.block[x] for x in names]
                self.ctx.probes['minc_twin_names'] += 1
        # precondition: generated matrix-block names are free and distinct (else minc refuses)
        new = [str(m) + n[len(str(m)):] for n in proc for m in range(1, nf)]
        if not proc:
            return False
        if any(self.aliased(g.block[n].rocktype.name) for n in proc):
            return False
        if len(set(new)) != len(new) or any(x in g.block for x in new):
            # generated matrix-block names collide: minc must refuse loudly, never build a
            # grid in which one block silently replaces another
            try:
                g.minc(vf, spacing, npl, arg)
            except Exception:
                self.ctx.probes['minc_refused_duplicate_names'] += 1
                self.model = extract(g)      # what the refused call left is taken as is
                self.geo_valid = False
                return 'refused'
            raise Violation('I5', 'minc accepted blocks whose matrix-block names collide (%r...) '
                            'without an error' % (sorted(set(x for x in new if new.count(x) > 1
                                                              or x in g.block))[:3],))
        before = self.model.copy()
        self.call(lambda: g.minc(vf, spacing, npl, arg), 'minc')
        # reference model of what MINC promises
        s = sum(vf)
        fr = [v / s for v in vf]
        m = self.model
        for n in proc:
            V, rock, cen = before.b[n]
            m.b[n] = [V * fr[0], rock, cen]
            m.r.add(rock)
            last = n
            for lev in range(1, nf):
                mn = str(lev) + n[len(str(lev)):]
                mrock = 'X' + rock[1:]
                m.b[mn] = [V * fr[lev], mrock, cen]
                m.r.add(mrock)
                m.c[(last, mn)] = {'first': last, 'second': mn, 'chain': True}
                last = mn
        self.check_minc(before, proc, fr, nf)
        self.model = extract(g)          # distances/areas of the new chain are taken as built
        self.geo_valid = False
        self.ctx.probes['minc_levels_%d_planes_%d' % (nf, npl)] += 1
        return (nf, npl, int(arg is None))

    def check_minc(self, before, proc, fr, nf):
        """MINC keeps each original block's total volume, split in the requested fractions and
        chained fracture -> innermost matrix; untouched blocks and connections are untouched."""
        g = self.grid
        got = extract(g)
        m = self.model
        code = 'P5' if self.PHYSICS else 'I5'
        if sorted(got.b) != sorted(m.b):
            raise Violation(code, 'after MINC the block set is not originals + matrix blocks: '
                            'lost %r unexpected %r' % (sorted(set(m.b) - set(got.b))[:3],
                                                       sorted(set(got.b) - set(m.b))[:3]))
        if set(got.c) != set(m.c):
            raise Violation(code, 'after MINC the connections are not originals + one chain '
                            'per block: lost %r unexpected %r'
                            % (sorted(set(m.c) - set(got.c))[:3], sorted(set(got.c) - set(m.c))[:3]))
        if not self.PHYSICS:
            return
        for n in proc:
            V = before.b[n][0]
            names = [n] + [str(l) + n[len(str(l)):] for l in range(1, nf)]
            vols = [got.b[x][0] for x in names]
            if abs(sum(vols) - V) > 1e-12 * abs(V):
                raise Violation('P5', 'MINC continua of block %r have total volume %r, the block '
                                'had %r' % (n, sum(vols), V))
            for x, v, f in zip(names, vols, fr):
                if abs(v - V * f) > 1e-12 * abs(V):
                    raise Violation('P5', 'MINC continuum %r has volume %r, requested fraction '
                                    '%r of %r' % (x, v, f, V))
            for a, b in zip(names[:-1], names[1:]):
                c = got.c[(a, b)]
                if (c['first'], c['second']) != (a, b):
                    raise Violation('P5', 'MINC chain connection %r is listed %r->%r'
                                    % ((a, b), c['first'], c['second']))
        for n, v in before.b.items():
            if n not in proc and got.b[n] != v:
                raise Violation('P5', 'MINC changed block %r which it was not applied to: %r -> %r'
                                % (n, v, got.b[n]))
        for k, v in before.c.items():
            gc = got.c[k]
            if (gc['area'], gc['direction'], gc['dist'], gc['dircos'], gc['first']) != \
                    (v['area'], v['direction'], v['dist'], v['dircos'], v['first']):
                raise Violation('P5', 'MINC changed the original connection %r' % (tuple(k),))

    def op_ADD_GRID(self, ch):
        other = self.small_grid(ch[0], 'p', 1 + ch[1] % 4)
        if any(b.name in self.grid.block for b in other.blocklist):
            return False
        left = copy.deepcopy(self.grid)
        if (ch[1] // 4) % 3 == 0 and left.blocklist and other.rocktypelist:
            # the first operand also holds an unconnected block under a name the second operand
            # uses: the sum must hold that name once, as the second operand's block
            nm = left.blocklist[(ch[1] // 12) % len(left.blocklist)].name
            other.add_block(self.tg.t2block(nm, 7.0, other.rocktypelist[0]))
            res = self.call(lambda: other + left, 'grid + grid (shared isolated block name)')
            other.delete_block(nm)
            self.ctx.probes['add_grid_shared_name'] += 1
        else:
            res = self.call(lambda: left + other, 'grid + grid')
        om = extract(other)
        self.model.b.update(om.b)
        self.model.c.update(om.c)
        self.model.r |= om.r
        self.grid = res
        self.geo_valid = False
        if any(b.rocktype is not res.rocktype.get(b.rocktype.name) for b in res.blocklist):
            self.ctx.probes['rocktype_alias_after_add'] += 1
        self.note_aliases()

    def op_EMBED(self, ch):
        g = self.grid
        if not g.blocklist:
            return False
        sub = self.small_grid(ch[1], 'e', 1 + ch[2] % 3)
        if any(b.name in g.block for b in sub.blocklist):
            return False
        subvol = sum(b.volume for b in sub.blocklist)
        hosts = [b for b in g.blocklist if subvol < b.volume < 1e24]
        if not hosts:
            return False
        main = copy.deepcopy(g)
        host = main.block[hosts[ch[0] % len(hosts)].name]
        target = sub.blocklist[ch[3] % len(sub.blocklist)]
        if ch[2] % 7 == 6 and len(sub.blocklist) > 1 and len(g.blocklist) > 1:
            # a block of the subgrid carries the name of a block of the main grid (another object):
            # embed() is documented to refuse (returns None) and both grids stay as they are
            clash = [b for b in sub.blocklist if b is not target][0]
            other = [b for b in main.blocklist if b is not host][ch[3] % (len(main.blocklist) - 1)]
            old_name = clash.name
            sub.rename_blocks({old_name: other.name}, fix_blocknames=False)
            con = self.tg.t2connection([host, target], 1, [0.5, 0.25], 2.0, 0.0)
            before = extract(main)
            res = self.call(lambda: main.embed(sub, con), 'embed(shared block name)')
            if res is not None:
                raise Violation('I1.refused', 'embed() accepted a subgrid holding a block named '
                                '%r like a block of the main grid' % other.name)
            check_structure(main, getattr(self, 'alias_ok', None))
            compare(before, extract(main), self.PHYSICS, False, 'refused embed: ')
            self.ctx.probes['embed_refused_shared_name'] += 1
            return 'refused'
        if ch[2] % 2:
            # the connection may name the host by a stand-in block object (embed re-binds the
            # connection's blocks by name)
            host = self.tg.t2block(host.name, host.volume, host.rocktype, centre=host.centre)
            self.ctx.probes['embed_standin_host'] += 1
        con = self.tg.t2connection([host, target], 1 + ch[3] % 3, [0.5, 0.25], 2.0, 0.0)
        total_before = sum(v[0] for v in self.model.b.values())
        res = self.call(lambda: main.embed(sub, con), 'embed')
        if res is None:
            return False
        om = extract(sub)
        self.model.b.update(om.b)
        self.model.c.update(om.c)
        self.model.r |= om.r
        self.model.b[host.name][0] -= subvol
        self.model.c[(host.name, target.name)] = {
            'first': host.name, 'second': target.name, 'area': 2.0, 'direction': 1 + ch[3] % 3,
            'dist': {host.name: 0.5, target.name: 0.25}, 'dircos': 0.0}
        self.grid = res
        self.geo_valid = False
        total_after = sum(b.volume for b in res.blocklist)
        if self.PHYSICS and abs(total_after - total_before) > 1e-9 * max(1.0, abs(total_before)) \
                and total_before < 1e20:
            raise Violation('P6', 'embedding changed the total volume from %r to %r'
                            % (total_before, total_after))
        self.ctx.probes['embed'] += 1
        self.note_aliases()

    def op_PERSIST(self, ch):
        """Write through t2data to SimFS, crash, read back into a fresh object, continue there."""
        g = self.grid
        ctx = self.ctx
        if not g.rocktypelist or not g.blocklist:
            return False
        if any(self.aliased(rt.name) for rt in g.rocktypelist):
            return False
        if any(len(rt.name) != 5 for rt in g.rocktypelist):
            return False
        cn = [canon_name(b.name) for b in g.blocklist]
        if len(set(cn)) != len(cn):
            return False        # two names that the file format cannot tell apart
        # volumes / distances must fit their 10-column fields (C02's subject otherwise)
        dat = self.td.t2data()
        dat.title = 'persist'
        dat.grid = g
        fs = ctx.fs
        fs.begin_op(2000000)
        path = ROOT + 'persist.dat'
        mode = ch[0] % 4
        mesh = ''
        if mode == 2:
            mesh = ROOT + 'persist.MESH'
        elif mode == 3 and all(b.centre is not None for b in g.blocklist) and \
                not any(c.nseq or c.nad1 or c.nad2 for c in g.connectionlist):
            mesh = (ROOT + 'persist.MESHA', ROOT + 'persist.MESHB')
        self.persist_binary = isinstance(mesh, tuple)
        self.call(lambda: dat.write(path, meshfilename=mesh), 't2data.write')
        if not mesh and ch[1] % 3 == 0:
            # no restart: the program reads the file again into the object it wrote it from
            fs.begin_op(2000000)
            dat2 = self.call(lambda: dat.read(path), 't2data.read into the same object')
            ctx.probes['persist_reread_into_same_object'] += 1
        else:
            fs.crash()
            fs.restart()
            fs.begin_op(2000000)
            dat2 = self.call(lambda: self.td.t2data(path, meshfilename=mesh), 't2data.read')
        ctx.probes['persist_mesh_%s' % ('binary' if isinstance(mesh, tuple) else
                                        ('ascii' if mesh else 'infile'))] += 1
        self.grid = dat2.grid
        self.alias_ok = set()
        self.geo_valid = False
        # names come back in the form one write/read cycle gives them
        mp = {} if self.persist_binary else \
            dict((n, canon_name(n)) for n in self.model.b if canon_name(n) != n)
        if mp:
            ctx.probes['persist_names_canonicalised'] += 1
            m = self.model
            m.b = dict((mp.get(nm, nm), v) for nm, v in m.b.items())
            newc = {}
            for v in m.c.values():
                v = dict(v)
                v['first'], v['second'] = mp.get(v['first'], v['first']), \
                    mp.get(v['second'], v['second'])
                v['dist'] = dict((mp.get(nm, nm), d) for nm, d in v['dist'].items())
                newc[(v['first'], v['second'])] = v
            m.c = newc
        if self.persist_binary:
            # the binary files hold 0.0 where a connection has no gravity cosine
            for v in self.model.c.values():
                if v['dircos'] is None:
                    v['dircos'] = 0.0
        ctx.probes['persist_restart'] += 1

    def finish(self):
        pass


# ---------------------------------------------------------------------------------------------
# deterministic sweep: every op sequence up to a bound over the 4-name universe (C08 quantifier)

PAIRS = [(0, 1), (0, 2), (0, 3), (1, 2), (1, 3), (2, 3)]


def _renmaps():
    import itertools
    maps = []
    for a, b in itertools.combinations(range(4), 2):
        maps.append({a: b, b: a})                                   # swaps
    for trio in itertools.combinations(range(4), 3):
        for perm in ((1, 2, 0), (2, 0, 1)):
            maps.append(dict((trio[i], trio[perm[i]]) for i in range(3)))   # 3-cycles
    for perm in itertools.permutations(range(4)):
        # 4-cycles only
        seen, k = set(), 0
        for _ in range(4):
            seen.add(k)
            k = perm[k]
        if len(seen) == 4 and all(perm[i] != i for i in range(4)):
            maps.append(dict((i, perm[i]) for i in range(4)))
    for a in range(4):
        for b in range(4):
            if a != b:
                maps.append({a: b})                                   # move to a free name
    return maps


RENMAPS = _renmaps()
X_STRUCT = ([['XADDB', [k]] for k in range(4)] + [['XDELB', [k]] for k in range(4)] +
            [['XADDC', [p, 0]] for p in range(6)] + [['XDELC', [p]] for p in range(6)] +
            [['XREN', [m]] for m in range(len(RENMAPS))] + [['XREORD', [m]] for m in range(3)])
X_ALL = (X_STRUCT + [['XADDC', [p, 1]] for p in range(6)] + [['XDEMOTE', [k]] for k in range(4)] +
         [['CLEAN_ROCK', []], ['XADDR', []], ['XMINC', []]] +
         [['XDELR', [r]] for r in range(3)] + [['XRENR', [r]] for r in range(3)] +
         [['XSETR', [k, r]] for k in range(4) for r in range(2)])
X_INITS = 3


def _sweep_layout():
    a, st = len(X_ALL), len(X_STRUCT)
    return [(1, a, X_ALL), (2, a * a, X_ALL), (3, st ** 3, X_STRUCT)]


class _SweepMixin(object):

    @classmethod
    def sweep_size(cls, tier):
        return X_INITS * sum(n for _, n, _ in _sweep_layout())

    @classmethod
    def sweep_case(cls, i, tier):
        init = i % X_INITS
        j = i // X_INITS
        for length, n, alpha in _sweep_layout():
            if j < n:
                ops = []
                for _ in range(length):
                    ops.append(alpha[j % len(alpha)])
                    j //= len(alpha)
                break
            j -= n
        knobs = {'tier': tier, 'universe': True, 'sweep': True, 'bufsize': None}
        return knobs, [['XINIT', [init], None]] + [[k, list(c), None] for k, c in ops]

    def uname(self, k):
        return UNIVERSE[k % 4]

    def op_XINIT(self, ch):
        tg = self.tg
        g = tg.t2grid()
        rks = [tg.rocktype('dfalt'), tg.rocktype('rock1')]
        for r in rks:
            g.add_rocktype(r)
        v = ch[0] % X_INITS
        names = {0: (0, 1, 2, 3), 1: (0, 1, 2), 2: ()}[v]
        for k in names:
            g.add_block(tg.t2block(UNIVERSE[k], float(k + 1), rks[k % 2],
                                   centre=[float(k), 0., -1.]))
        pairs = {0: ((0, 1), (1, 2), (2, 3)), 1: ((0, 1), (1, 2), (2, 0)), 2: ()}[v]
        for a, b in pairs:
            g.add_connection(tg.t2connection([g.block[UNIVERSE[a]], g.block[UNIVERSE[b]]], 1,
                                             [0.5 + a, 0.25 + b], 2.0 + a, -1.0 if a < b else 0.5))
        self.grid, self.geo, self.geo_valid = g, None, False
        self.alias_ok = set()
        self.model = extract(g)
        return v

    def op_XADDB(self, ch):
        n = self.uname(ch[0])
        if n in self.grid.block or not self.grid.rocktypelist:
            return False
        return self._xaddb(n)

    def _xaddb(self, n):
        g = self.grid
        rock = g.rocktypelist[0]
        self.call(lambda: g.add_block(self.tg.t2block(n, 2.5, rock, centre=[1., 1., -2.])),
                  'add_block')
        self.model.b[n] = [2.5, rock.name, (1., 1., -2.)]

    def op_XDELB(self, ch):
        n = self.uname(ch[0])
        if n not in self.grid.block:
            return False
        self.call(lambda: self.grid.delete_block(n), 'delete_block')
        del self.model.b[n]
        for k in [k for k in self.model.c if n in k]:
            del self.model.c[k]

    def op_XADDC(self, ch):
        g = self.grid
        a, b = PAIRS[ch[0] % 6]
        if ch[1] % 2:
            a, b = b, a
        na, nb = UNIVERSE[a], UNIVERSE[b]
        if na not in g.block or nb not in g.block or (na, nb) in self.model.c or \
                (nb, na) in self.model.c:
            return False
        self.call(lambda: g.add_connection(self.tg.t2connection(
            [g.block[na], g.block[nb]], 2, [0.5, 1.5], 3.0, 0.6)), 'add_connection')
        self.model.c[(na, nb)] = {'first': na, 'second': nb, 'area': 3.0,
                                             'direction': 2, 'dist': {na: 0.5, nb: 1.5},
                                             'dircos': 0.6}

    def op_XDELC(self, ch):
        g = self.grid
        a, b = PAIRS[ch[0] % 6]
        key = (UNIVERSE[a], UNIVERSE[b])
        if key not in self.model.c:
            key = key[::-1]
        if key not in self.model.c:
            return False
        m = self.model.c[key]
        self.call(lambda: g.delete_connection((m['first'], m['second'])), 'delete_connection')
        del self.model.c[key]

    def op_XREN(self, ch):
        g = self.grid
        mp = dict((UNIVERSE[a], UNIVERSE[b]) for a, b in RENMAPS[ch[0] % len(RENMAPS)].items())
        mp = dict((a, b) for a, b in mp.items() if a in g.block)
        if not mp or len(set(mp.values())) != len(mp) or \
                any(v in g.block and v not in mp for v in mp.values()):
            return False          # not a one-to-one map free of collisions in this state
        self.call(lambda: g.rename_blocks(dict(mp)), 'rename_blocks')
        m = self.model
        m.b = dict((mp.get(nm, nm), v) for nm, v in m.b.items())
        newc = {}
        for v in m.c.values():
            v = dict(v)
            v['first'], v['second'] = mp.get(v['first'], v['first']), mp.get(v['second'], v['second'])
            v['dist'] = dict((mp.get(nm, nm), d) for nm, d in v['dist'].items())
            newc[(v['first'], v['second'])] = v
        m.c = newc
        return len(mp)

    def op_XREORD(self, ch):
        g = self.grid
        mode = ch[0] % 3
        bn = [b.name for b in g.blocklist][::-1] if mode == 0 and g.blocklist else None
        cn = None
        if mode >= 1 and g.connectionlist:
            cn = [tuple(b.name for b in c.block) for c in g.connectionlist][::-1]
            if mode == 2:
                cn = [c[::-1] if c[::-1] not in g.connection else c for c in cn]
        if bn is None and cn is None:
            return False
        self.call(lambda: g.reorder(bn, cn), 'reorder')
        return mode

    def op_XDEMOTE(self, ch):
        n = self.uname(ch[0])
        if n not in self.grid.block:
            return False
        self.call(lambda: self.grid.demote_block(n), 'demote_block')

    def op_XADDR(self, ch):
        if 'rock2' in self.grid.rocktype:
            return False
        self.call(lambda: self.grid.add_rocktype(self.tg.rocktype('rock2')), 'add_rocktype')
        self.model.r.add('rock2')

    def op_XDELR(self, ch):
        g = self.grid
        n = ('dfalt', 'rock1', 'rock2')[ch[0] % 3]
        if n not in g.rocktype or any(b.rocktype.name == n for b in g.blocklist):
            return False
        self.call(lambda: g.delete_rocktype(n), 'delete_rocktype')
        self.model.r.discard(n)

    def op_XRENR(self, ch):
        g = self.grid
        n = ('dfalt', 'rock1', 'rock2')[ch[0] % 3]
        if n not in g.rocktype or 'ROCK3' in g.rocktype:
            return False
        self.call(lambda: g.rename_rocktype(n, 'ROCK3'), 'rename_rocktype')
        self.model.r.discard(n)
        self.model.r.add('ROCK3')
        for v in self.model.b.values():
            if v[1] == n:
                v[1] = 'ROCK3'

    def op_XSETR(self, ch):
        g = self.grid
        n = self.uname(ch[0])
        if n not in g.block or not g.rocktypelist:
            return False
        r = g.rocktypelist[ch[1] % len(g.rocktypelist)]
        g.block[n].rocktype = r
        self.model.b[n][1] = r.name

    def op_XMINC(self, ch):
        return self.op_MINC([0, 0, 0, 0, 0, 0, 0, 0])


class GridMachine(_SweepMixin, GridMachineBase):
    PROP = 'C08'


class GridPhysicsMachine(_SweepMixin, GridMachineBase):
    PROP = 'C09'
    PHYSICS = True
