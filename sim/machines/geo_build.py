"""Geometry construction shared by the edit and store machines (harness side)."""
import os
import random

from ..seeds import H

REPO = os.environ.get('VERIF_REPO', '/repo')
SPACINGS = (10.0, 25.0, 50.0, 100.0, 12.5, 33.33, 7.77, 250.0, 1000.0, 3.21)
THICK = (5.0, 10.0, 20.0, 50.0, 2.5, 100.0, 7.5)
_SHIP = {}


def shipped_bytes(i):
    path = os.path.join(REPO, 'tests', 'mulgrid', 'g%d.dat' % i)
    if i not in _SHIP:
        _SHIP[i] = open(path, 'rb').read()
    return _SHIP[i]


def rect(mulgrids, sub, nx, ny, nz, convention=0, atmos=0, order=None, justify='r',
         case=None, origin=None):
    """Rectangular geometry with pseudo-random spacings drawn from sub-seed `sub`."""
    rng = random.Random(H('rect', sub))
    dx = [rng.choice(SPACINGS) for _ in range(nx)]
    dy = [rng.choice(SPACINGS) for _ in range(ny)]
    dz = [rng.choice(THICK) for _ in range(nz)]
    kw = {}
    if origin is not None:
        kw['origin'] = origin
    if case is not None:
        import string
        kw['chars'] = string.ascii_uppercase if case == 'u' else string.ascii_lowercase
    geo = mulgrids.mulgrid().rectangular(dx, dy, dz, convention=convention, atmos_type=atmos,
                                         justify=justify, block_order=order, **kw)
    return geo


def toy(mulgrids, which, convention=0, atmos=0):
    """Small mixed triangle / quad / pentagon / hexagon / heptagon meshes built node by node."""
    import numpy as np
    m = mulgrids
    geo = m.mulgrid(convention=convention, atmos_type=atmos)
    rot = (which // 4) % 7
    which %= 4
    if which == 3:
        # a quadrilateral with mid-side nodes on three of its sides (7 nodes), listed from any of
        # its nodes, with two small quads along each of those sides
        pts = {'a': (0, 0), 'b': (10, 0), 'c': (20, 0), 'd': (20, 10), 'e': (20, 20), 'f': (10, 20),
               'g': (0, 20), 'p': (0, -10), 'q': (10, -10), 'r': (20, -10), 's': (30, 0),
               't': (30, 10), 'u': (30, 20), 'v': (0, 30), 'w': (10, 30), 'x': (20, 30)}
        big = ('a', 'b', 'c', 'd', 'e', 'f', 'g')
        cols = [big[rot:] + big[:rot], ('p', 'q', 'b', 'a'), ('q', 'r', 'c', 'b'),
                ('c', 's', 't', 'd'), ('d', 't', 'u', 'e'), ('g', 'f', 'w', 'v'),
                ('f', 'e', 'x', 'w')]
    elif which == 0:
        # a pentagon with one straight node (k on the edge d-e) under two small quads, and quads
        pts = {'a': (0, 0), 'b': (10, 0), 'c': (20, 0), 'd': (0, 10), 'k': (5, 10), 'e': (10, 10),
               'f': (20, 10), 'g': (0, 20), 'm': (5, 20), 'h': (10, 20), 'i': (20, 20)}
        cols = [('a', 'b', 'e', 'k', 'd'), ('b', 'c', 'f', 'e'), ('d', 'k', 'm', 'g'),
                ('k', 'e', 'h', 'm'), ('e', 'f', 'i', 'h')]
    elif which == 1:
        # a hexagon with two opposite straight nodes between two rows of quads, plus a triangle
        pts = {'p': (0, -10), 'q': (10, -10), 'r': (20, -10), 'a': (0, 0), 'm': (10, 0),
               'b': (20, 0), 'd': (0, 10), 'n': (10, 10), 'e': (20, 10), 's': (0, 20),
               't': (10, 20), 'u': (20, 20), 'v': (30, 5)}
        cols = [('a', 'm', 'b', 'e', 'n', 'd'), ('p', 'q', 'm', 'a'), ('q', 'r', 'b', 'm'),
                ('d', 'n', 't', 's'), ('n', 'e', 'u', 't'), ('b', 'v', 'e')]
    else:
        # strip of three triangles and a quad
        pts = {'a': (0, 0), 'b': (12, 0), 'c': (24, 0), 'd': (6, 10), 'e': (18, 10),
               'f': (30, 10), 'g': (36, 0)}
        cols = [('a', 'b', 'd'), ('b', 'e', 'd'), ('b', 'c', 'e'), ('c', 'f', 'e'),
                ('c', 'g', 'f')]
    nname = {}
    for i, nm in enumerate(sorted(pts)):
        nname[nm] = geo.node_name_from_number(i + 1)      # width and style of the convention
        geo.add_node(m.node(nname[nm], np.array(pts[nm], dtype=float)))
    for k, c in enumerate(cols):
        nodes = [geo.node[nname[n]] for n in c]
        name = geo.column_name_from_number(k + 1)
        geo.add_column(m.column(name, nodes))    # the constructor orients it counter-clockwise
    # connections between columns sharing an edge
    for i, ci in enumerate(geo.columnlist):
        for cj in geo.columnlist[i + 1:]:
            shared = [n for n in ci.node if n in cj.node]
            if len(shared) == 2:
                geo.add_connection(m.connection([ci, cj], shared))
    geo.add_layers([10.0, 10.0, 20.0], 0.0)
    geo.set_default_surface()
    geo.identify_neighbours()
    geo.setup_block_name_index()
    geo.setup_block_connection_name_index()
    return geo
