"""C10 — mulgrid internal consistency under edit histories (machine `edit`, component mulgrid).

The set-iteration order of node/column/connection objects is decided by the seeded hash
scheduler (sim/hashseam.py), so refine / decompose / reduce / check(fix) create and name objects
in a seed-determined order; every invariant must hold for every order.
"""
import copy
import math
import random

from ..engine import Machine, Violation, _short_tb
from ..seeds import H
from ..simfs import SimCrash, SimBudgetExceeded, ROOT
from . import geo_build

LOW = ('ADD_NODE', 'DEL_NODE', 'ADD_COL', 'ADD_COL_DUP', 'RENAME_COL_BAD', 'DEL_COL', 'DEL_CON', 'ADD_CON', 'ADD_LAYER',
       'DEL_LAYER', 'RENAME_LAYER', 'ADD_WELL', 'DEL_WELL', 'REFRESH')
XHIGH = ('XREFINE', 'XSPLIT', 'XDECOMP', 'XREDUCE', 'XREFLAY', 'XSETSURF', 'XRENCOL')
HIGH = XHIGH + ('RENAME_COL', 'SPLIT', 'REFINE', 'REFINE_LAYERS', 'DECOMPOSE', 'REDUCE', 'CHECK_FIX',
        'SNAP', 'SNAP_NEAREST', 'SET_SURFACE', 'TRANSLATE', 'ROTATE', 'COPY_LAYERS',
        'DEL_ORPHANS', 'FIT_SURFACE', 'SET_OPTION', 'EDIT_OTHER', 'PERSIST')
ATMCOL = ('ATM', ' 0', '  0', 'ATM')
# ops that recompute the derived block / connection name lists themselves
REFRESHING = XHIGH + ('XINIT', 'INIT', 'REFRESH', 'RENAME_LAYER', 'RENAME_COL', 'SPLIT', 'REFINE', 'REFINE_LAYERS',
              'DECOMPOSE', 'REDUCE', 'SNAP', 'SNAP_NEAREST', 'SET_SURFACE', 'COPY_LAYERS',
              'FIT_SURFACE', 'SET_OPTION', 'PERSIST')
# ops that change no name, column, connection, layer or surface (lists stay as fresh as they were)
NEUTRAL = ('TRANSLATE', 'ROTATE', 'ADD_WELL', 'DEL_WELL', 'ADD_NODE', 'DEL_NODE', 'DEL_ORPHANS',
           'EDIT_OTHER', 'ADD_COL_DUP', 'RENAME_COL_BAD')


def my_fix(name):
    if name[2].isdigit() and name[4].isdigit() and name[3] == ' ':
        return name[:3] + '0' + name[4]
    return name


def my_block_name(conv, layname, colname):
    if conv in (0, 3):
        nm = colname[0:3] + layname[0:2]
    elif conv == 1:
        nm = layname[0:3] + colname[0:2]
    else:
        nm = layname[0:2] + colname[0:3]
    return my_fix(nm)


def my_name_lists(geo):
    """The harness's own recomputation of the block and connection name lists from layers,
    columns, surfaces, atmosphere type, naming convention and block order."""
    conv, atm = geo.convention, geo.atmosphere_type
    lays, cols = geo.layerlist, geo.columnlist
    names = []
    if not lays:
        return [], []
    if atm == 0:
        names.append(my_block_name(conv, lays[0].name, ATMCOL[conv]))
    elif atm == 1:
        names += [my_block_name(conv, lays[0].name, c.name) for c in cols]
    under = {6: [], 8: [], 'other': []}
    plain = []
    for lay in lays[1:]:
        for c in cols:
            if c.surface > lay.bottom:
                nm = my_block_name(conv, lay.name, c.name)
                plain.append(nm)
                under.get(2 * len(c.node), under['other']).append(nm)
    if geo.block_order == 'dmplex':
        names += under[8] + under[6]
    else:
        names += plain
    cons = []
    for ilay, lay in enumerate(lays[1:]):
        layercols = [c for c in cols if c.surface > lay.bottom]
        for c in layercols:
            this = my_block_name(conv, lay.name, c.name)
            if ilay == 0 or c.surface <= lay.top:
                if atm == 0:
                    above = names[0]
                elif atm == 1:
                    above = my_block_name(conv, lays[0].name, c.name)
                else:
                    continue
            else:
                above = my_block_name(conv, lays[ilay].name, c.name)
            cons.append((this, above))
        inlayer = set(id(c) for c in layercols)
        for con in geo.connectionlist:
            if id(con.column[0]) in inlayer and id(con.column[1]) in inlayer:
                cons.append((my_block_name(conv, lay.name, con.column[0].name),
                             my_block_name(conv, lay.name, con.column[1].name)))
    return names, cons


def shoelace(col):
    p = [n.pos for n in col.node]
    s = 0.0
    for i in range(len(p)):
        a, b = p[i], p[(i + 1) % len(p)]
        s += a[0] * b[1] - b[0] * a[1]
    return 0.5 * s


def check_core(geo, layers_fresh=True):
    """J1-J5 on the real object."""
    # J1
    for what, lst, dct, key in (
            ('node', geo.nodelist, geo.node, lambda o: o.name),
            ('column', geo.columnlist, geo.column, lambda o: o.name),
            ('layer', geo.layerlist, geo.layer, lambda o: o.name),
            ('well', geo.welllist, geo.well, lambda o: o.name),
            ('connection', geo.connectionlist, geo.connection,
             lambda o: (o.column[0].name, o.column[1].name))):
        keys = [key(o) for o in lst]
        if len(set(keys)) != len(keys):
            raise Violation('J1.' + what, '%s list holds duplicate names %r'
                            % (what, sorted(set(k for k in keys if keys.count(k) > 1))[:3]))
        if len(dct) != len(lst):
            raise Violation('J1.' + what, '%d %ss in the list but %d in the by-name lookup'
                            % (len(lst), what, len(dct)))
        for o, k in zip(lst, keys):
            if dct.get(k) is not o:
                raise Violation('J1.' + what, '%s %r of the list is not what the lookup holds '
                                'under its current name (lookup keys e.g. %r)'
                                % (what, k, sorted(dct)[:4]))
    # J2
    uses = dict((id(n), set()) for n in geo.nodelist)
    for c in geo.columnlist:
        for n in c.node:
            if id(n) not in uses:
                raise Violation('J2', 'column %r uses node %r which is not in the geometry'
                                % (c.name, n.name))
            uses[id(n)].add(id(c))
    for n in geo.nodelist:
        if set(id(c) for c in n.column) != uses[id(n)]:
            have = sorted(c.name for c in n.column)
            raise Violation('J2', 'node %r records columns %r but is used by %d columns'
                            % (n.name, have[:5], len(uses[id(n)])))
    # J3
    cons = dict((id(c), set()) for c in geo.columnlist)
    for con in geo.connectionlist:
        for c in con.column:
            if id(c) not in cons or geo.column.get(c.name) is not c:
                raise Violation('J3', 'connection %r joins a column object that is not in the '
                                'geometry' % ((con.column[0].name, con.column[1].name),))
            cons[id(c)].add(id(con))
    for c in geo.columnlist:
        if set(id(x) for x in c.connection) != cons[id(c)]:
            raise Violation('J3', 'column %r records %d connections but %d mention it'
                            % (c.name, len(c.connection), len(cons[id(c)])))
    # J4
    for con in geo.connectionlist:
        a, b = con.column
        nodes = con.node
        if nodes is None or len(nodes) != 2 or nodes[0] is nodes[1]:
            raise Violation('J4', 'connection %r has no two-node edge: %r' % ((a.name, b.name), nodes))
        for c in (a, b):
            if not all(any(n is m for m in c.node) for n in nodes):
                raise Violation('J4', 'connection %r: node(s) %r are not corners of column %r'
                                % ((a.name, b.name), [n.name for n in nodes], c.name))
            i, j = [k for k, m in enumerate(c.node) if m is nodes[0]][0], \
                   [k for k, m in enumerate(c.node) if m is nodes[1]][0]
            nn = len(c.node)
            if (i - j) % nn not in (1, nn - 1):
                raise Violation('J4', 'connection %r: nodes %r are not an edge of column %r'
                                % ((a.name, b.name), [n.name for n in nodes], c.name))
    # J5
    for c in geo.columnlist:
        if len(c.node) < 3:
            raise Violation('J5', 'column %r has %d nodes' % (c.name, len(c.node)))
        s = shoelace(c)
        if not s > 0.0:
            raise Violation('J5', 'column %r is not counter-clockwise with positive area '
                            '(signed area %r)' % (c.name, s))
        if not c.area > 0.0:
            raise Violation('J5', 'column %r records area %r' % (c.name, c.area))
        if layers_fresh and geo.layerlist:
            want = len([l for l in geo.layerlist[1:] if l.bottom < c.surface])
            if c.num_layers != want:
                raise Violation('J5.layers', 'column %r with surface %r records %d layers, %d '
                                'layers have their bottom below it' % (c.name, c.surface,
                                                                       c.num_layers, want))


def mesh_problems(geo):
    """J7 predicate: list of problems (empty = valid mesh)."""
    out = []
    for c in geo.columnlist:
        reach = set()
        for con in c.connection:
            for x in con.column:
                if x is not c:
                    reach.add(id(x))
        if set(id(x) for x in c.neighbour) != reach:
            out.append('column %r neighbours %r differ from the columns its connections reach'
                       % (c.name, sorted(x.name for x in c.neighbour)[:5]))
            break
        for x in c.neighbour:
            if not any(y is c for y in x.neighbour):
                out.append('column %r lists %r as neighbour but not vice versa' % (c.name, x.name))
                break
    mc = geo.missing_connections
    if mc:
        out.append('missing connections %r' % sorted((x.column[0].name, x.column[1].name)
                                                      for x in mc)[:3])
    ec = geo.extra_connections
    if ec:
        out.append('extra connections %r' % sorted(ec)[:3])
    orph = geo.orphans
    if orph:
        out.append('orphan nodes %r' % sorted(n.name for n in orph)[:4])
    return out


def fits_fields(geo):
    """Coordinates within the 10-column, two-decimal fields of the file format (a rotation or
    translation of a geometry with seven-digit coordinates can leave them; the format then has no
    way to carry the number, which is outside every round-trip claim)."""
    sc = geo.unit_scale
    def ok(v):
        return -999999.99 * 0.999 < v / sc < 9999999.99 * 0.999
    for n in geo.nodelist:
        if not (ok(n.pos[0]) and ok(n.pos[1])):
            return False
    for c in geo.columnlist:
        if c.centre_specified and not (ok(c.centre[0]) and ok(c.centre[1])):
            return False
    for l in geo.layerlist:
        if not (ok(l.bottom) and ok(l.centre)):
            return False
    for w in geo.welllist:
        for p in w.pos:
            if not all(ok(x) for x in p):
                return False
    return True


class Refused(Exception):
    """The library refused an operation loudly (naming convention exhausted): nothing is claimed
    about the object afterwards."""


def edge_connected(geo, without=None):
    """True if the columns form one piece through shared edges (the property quantifies over
    connected geometries; two columns touching in a single node are not connected)."""
    cols = [c for c in geo.columnlist if c is not without]
    if len(cols) <= 1:
        return True
    byedge = {}
    for c in cols:
        nn = len(c.node)
        for i in range(nn):
            byedge.setdefault(frozenset((id(c.node[i]), id(c.node[(i + 1) % nn]))), []).append(c)
    adj = dict((id(c), []) for c in cols)
    for lst in byedge.values():
        for a in lst:
            for b in lst:
                if a is not b:
                    adj[id(a)].append(b)
    seen, todo = {id(cols[0])}, [cols[0]]
    while todo:
        for b in adj[id(todo.pop())]:
            if id(b) not in seen:
                seen.add(id(b))
                todo.append(b)
    return len(seen) == len(cols)


class GeoMachine(Machine):
    PROP = 'C10'
    OPS = LOW + HIGH + ('INIT',)

    @classmethod
    def knobs(cls, rng, tier):
        k = {'tier': tier}
        k['size'] = rng.choice((1, 2, 2, 3, 3, 4, 6))
        k['source'] = rng.choice(('rect', 'rect', 'rect', 'toy', 'toy', 'shipped'))
        w = {op: (rng.random() if rng.random() < 0.75 else 0.0) for op in cls.OPS}
        if rng.random() < 0.5:
            for op in LOW:
                w[op] = 0.0         # high-level only runs
        w['INIT'] = 0.02
        w['PERSIST'] *= 0.3
        w['FIT_SURFACE'] *= 0.3
        w['REFINE'] = max(w['REFINE'], 0.3)
        k['weights'] = w
        k['nops'] = rng.choice((1, 2, 3, 5, 8, 12, 25))
        k['bufsize'] = rng.choice((16, 8192, None))
        # "each optionally followed by a file round trip": in some runs every high-level edit is
        # followed by a write + read into a fresh object, which must be a consistent geometry
        # with the same name lists (the working geometry is not replaced)
        k['roundtrip_each'] = rng.random() < 0.25
        return k

    @classmethod
    def generate(cls, rng, knobs):
        R = rng.randrange
        big = 10 ** 6
        def init():
            return ['INIT', [R(big), R(big), 1 + R(knobs['size']), 1 + R(knobs['size']),
                             1 + R(4), R(3), R(4), R(8)], None]
        ops = [init()]
        kinds = [o for o in cls.OPS if knobs['weights'][o] > 0]
        wts = [knobs['weights'][o] for o in kinds]
        for _ in range(knobs['nops']):
            kd = rng.choices(kinds, wts)[0]
            ops.append(init() if kd == 'INIT' else [kd, [R(big) for _ in range(4)], None])
        return ops

    def __init__(self, ctx):
        Machine.__init__(self, ctx)
        import mulgrids
        self.mg = mulgrids
        self.geo = None
        self.layers_fresh = True
        self.index_fresh = True
        self.persist_pre_ok = True
        self.tie_taint = False

    # ------------------------------------------------------------------ helpers
    def call(self, fn, what):
        try:
            return fn()
        except Violation:
            raise
        except (SimCrash, SimBudgetExceeded):
            raise
        except self.mg.NamingConventionError:
            raise Refused(what)
        except Exception as e:
            raise Violation('EXC.' + what.split('(')[0], '%s raised %s' % (what, _short_tb(e)))

    def pick_cols(self, c, sub, connected=True, kmax=None):
        """A non-empty column subset resolved against the current state (connected region)."""
        geo = self.geo
        n = len(geo.columnlist)
        rng = random.Random(H('cols', sub))
        k = 1 + c % max(1, min(n, kmax or n))
        start = geo.columnlist[rng.randrange(n)]
        if not connected:
            return rng.sample(geo.columnlist, min(k, n))
        region, frontier = [start], [start]
        seen = {id(start)}
        while frontier and len(region) < k:
            cur = frontier.pop(rng.randrange(len(frontier)))
            nb = sorted(cur.neighbour, key=lambda x: x.name)
            rng.shuffle(nb)
            for x in nb:
                if id(x) not in seen and len(region) < k:
                    seen.add(id(x))
                    region.append(x)
                    frontier.append(x)
        return region

    def check_names(self, what):
        geo = self.geo
        bl, bi = list(geo.block_name_list), dict(geo.block_name_index)
        cl, ci = list(geo.block_connection_name_list), dict(geo.block_connection_name_index)
        if bi != dict((n, i) for i, n in enumerate(bl)) or \
                ci != dict((n, i) for i, n in enumerate(cl)):
            raise Violation('J6.index', '%s: name index does not match its own name list' % what)
        geo.setup_block_name_index()
        geo.setup_block_connection_name_index()
        if geo.block_name_list != bl:
            k = next((i for i, (x, y) in enumerate(zip(bl, geo.block_name_list)) if x != y),
                     min(len(bl), len(geo.block_name_list)))
            raise Violation('J6.stale', '%s: block name list is stale: a fresh recomputation '
                            'differs at %d (%r vs %r; %d vs %d names)'
                            % (what, k, bl[k:k + 2], geo.block_name_list[k:k + 2], len(bl),
                               len(geo.block_name_list)))
        if geo.block_connection_name_list != cl:
            raise Violation('J6.stale', '%s: block connection name list is stale (%d vs %d names)'
                            % (what, len(cl), len(geo.block_connection_name_list)))
        mb, mc = my_name_lists(geo)
        if mb != bl:
            k = next((i for i, (x, y) in enumerate(zip(bl, mb)) if x != y), min(len(bl), len(mb)))
            raise Violation('J6.names', '%s: block name list differs from an independent '
                            'recomputation at %d: %r vs %r' % (what, k, bl[k:k + 2], mb[k:k + 2]))
        if mc != cl:
            k = next((i for i, (x, y) in enumerate(zip(cl, mc)) if x != y), min(len(cl), len(mc)))
            raise Violation('J6.names', '%s: connection name list differs from an independent '
                            'recomputation at %d: %r vs %r' % (what, k, cl[k:k + 2], mc[k:k + 2]))
        if len(set(bl)) != len(bl):
            raise Violation('J6.names', '%s: duplicate block names' % what)

    def digest_state(self, what):
        geo = self.geo
        self.ctx.digest.add(
            what, [(n.name, round(float(n.pos[0]), 6), round(float(n.pos[1]), 6))
                   for n in geo.nodelist],
            [(c.name, [n.name for n in c.node], c.num_layers,
              None if c.surface is None else round(float(c.surface), 6)) for c in geo.columnlist],
            [(c.column[0].name, c.column[1].name) for c in geo.connectionlist],
            [(l.name, round(l.bottom, 6)) for l in geo.layerlist],
            [w.name for w in geo.welllist], geo.block_name_list[:50])

    # ------------------------------------------------------------------ driver
    def apply(self, op):
        kind, ch = op[0], list(op[1]) + [0] * 8
        ctx = self.ctx
        if self.geo is None and kind not in ('INIT', 'XINIT'):
            ctx.stats['skip_noinit'] += 1
            return
        high = kind in HIGH
        pre_ok = None
        if high and kind != 'PERSIST':
            pre_ok = not mesh_problems(self.geo) and edge_connected(self.geo)
        if kind in ('REFINE', 'SPLIT', 'DECOMPOSE', 'FIT_SURFACE', 'RENAME_COL', 'XREFINE', 'XSPLIT',
                    'XDECOMP', 'XRENCOL') and not pre_ok:
            # these ops take a valid mesh to a valid mesh; on a mesh that low-level edits left
            # with missing connections or orphans they promise nothing (refine may refuse loudly)
            ctx.stats['skip_%s_pre_invalid' % kind] += 1
            return
        try:
            done = getattr(self, 'op_' + kind)(ch)
        except Refused:
            # explicit naming error (name space of the convention exhausted): loud refusal,
            # the half-edited object is abandoned
            ctx.stats['refused_naming_' + kind] += 1
            ctx.digest.add('refused', kind)
            self.geo = None
            return
        if done is False:
            ctx.stats['skip_' + kind] += 1
            return
        ctx.stats['op_' + kind] += 1
        ctx.state_changes += 1
        ctx.fp.append((kind, done if isinstance(done, (str, int, tuple)) else 0))
        geo = self.geo
        # A surface within rounding distance of a layer boundary without sitting on it (layer
        # bottoms recomputed by repeated subtraction in refine_layers, then translated) makes the
        # layer count and the block lists depend on sub-ulp rounding: such a state is outside
        # what "a layer count matching its surface" can mean; the checks that count layers are
        # not evaluated on it.
        near_tie = any(0.0 < abs(c.surface - l.bottom) < 1e-7 * max(1.0, abs(l.bottom))
                       for c in geo.columnlist if c.surface is not None for l in geo.layerlist)
        if kind in ('INIT', 'XINIT'):
            self.tie_taint = False
        if near_tie:
            ctx.probes['surface_within_rounding_of_layer_boundary'] += 1
            self.tie_taint = True     # counts made in this state stay around until a new geometry
        near_tie = near_tie or self.tie_taint
        check_core(geo, self.layers_fresh and not near_tie)
        if kind == 'SET_OPTION' and done[0] == 'order':
            pass      # recomputes the block name list only; the connection list is untouched
        elif kind == 'REFINE' and isinstance(done, tuple) and done[0] == 'declined':
            pass      # nothing was done, so nothing was recomputed either
        elif kind in REFRESHING:
            self.index_fresh = True
        elif kind == 'CHECK_FIX':
            # check(fix) adds / deletes connections without promising the derived lists
            if done == 'changed':
                self.index_fresh = False
        elif kind not in NEUTRAL:
            self.index_fresh = False
        if self.index_fresh and self.layers_fresh and not near_tie:
            self.check_names(kind)
        if high or kind in ('INIT', 'XINIT'):
            establishes = kind in ('REDUCE', 'XREDUCE', 'CHECK_FIX', 'INIT', 'XINIT', 'PERSIST')
            if pre_ok or establishes:
                probs = mesh_problems(geo)
                if kind == 'PERSIST' and not self.persist_pre_ok:
                    probs = []
                if probs:
                    raise Violation('J7', '%s left an invalid mesh: %s' % (kind, '; '.join(probs)),
                                    key=self.j7_key(kind, probs))
            elif kind == 'DEL_ORPHANS' and geo.orphans:
                raise Violation('J7', 'delete_orphans left orphan nodes')
            else:
                ctx.probes['J7_not_asserted_pre_invalid'] += 1
        if ctx.knobs.get('roundtrip_each') and high and kind != 'PERSIST' and self.geo is not None:
            self.roundtrip_probe(kind)
        self.digest_state(kind)

    def roundtrip_probe(self, kind):
        geo, ctx = self.geo, self.ctx
        if not self.layers_fresh or not self.index_fresh or self.tie_taint or \
                mesh_problems(geo) or geo.num_columns > 200:
            return
        for c in geo.columnlist:
            for l in geo.layerlist:
                if 0.0 < abs(c.surface - l.bottom) < 0.0101:
                    return
        if not fits_fields(geo):
            return
        fs = ctx.fs
        fs.begin_op(2000000)
        path = ROOT + 'probe_geo.dat'
        names = my_name_lists(geo)
        self.call(lambda: geo.write(path), 'write')
        geo.filename = ''
        g2 = self.call(lambda: self.mg.mulgrid(path), 'read')
        fs.files.pop('probe_geo.dat', None)
        what = 'file round trip after %s' % kind
        if (g2.block_name_list, g2.block_connection_name_list) != tuple(names):
            raise Violation('J6.persist', '%s: name lists differ (%d vs %d blocks, %d vs %d '
                            'connections)' % (what, len(g2.block_name_list), len(names[0]),
                                              len(g2.block_connection_name_list), len(names[1])))
        if (g2.num_columns, g2.num_nodes, g2.num_connections) != \
                (geo.num_columns, geo.num_nodes, geo.num_connections):
            raise Violation('J6.persist', '%s: %d columns, %d nodes, %d connections read back, '
                            'written %d, %d, %d' % (what, g2.num_columns, g2.num_nodes,
                                                    g2.num_connections, geo.num_columns,
                                                    geo.num_nodes, geo.num_connections))
        check_core(g2, True)
        probs = mesh_problems(g2)
        if probs:
            raise Violation('J7', '%s left an invalid mesh: %s' % (what, '; '.join(probs)))
        ctx.probes['roundtrip_after_high_level_op'] += 1

    def j7_key(self, kind, probs):
        return '-'

    # ------------------------------------------------------------------ ops
    def op_INIT(self, ch):
        mg = self.mg
        sub, sub2, nx, ny, nz, atm, conv, opt = ch[:8]
        src = self.ctx.knobs.get('source', 'rect')
        rng = random.Random(H('geoinit', sub))
        conv, atm = conv % 4, atm % 3
        order = (None, 'layer_column', 'dmplex')[opt % 3]
        if src == 'toy':
            geo = geo_build.toy(mg, sub2, convention=conv if conv != 3 else 0, atmos=atm)
            if order == 'dmplex' and any(len(c.node) not in (3, 4) for c in geo.columnlist):
                order = None
            if order:
                geo.block_order = order
        elif src == 'shipped':
            tier = self.ctx.knobs.get('tier')
            i = (7, 7, 7, 5, 6)[sub2 % 5] if tier != 'thorough' and sub2 % 3 else \
                (7, 7, 1, 3, 5, 6, 2, 4)[sub2 % 8]
            self.ctx.fs.put('shipped.dat', geo_build.shipped_bytes(i))
            geo = self.call(lambda: mg.mulgrid(ROOT + 'shipped.dat'), 'read')
            del self.ctx.fs.files['shipped.dat']
            geo.filename = ''
            if geo.num_columns > 150:
                start = geo.columnlist[rng.randrange(geo.num_columns)]
                pos = start.centre
                near = sorted(geo.columnlist,
                              key=lambda c: (c.centre[0] - pos[0]) ** 2 + (c.centre[1] - pos[1]) ** 2)
                geo.reduce(near[:rng.choice((40, 80, 150))])
            self.ctx.probes['shipped_geometry'] += 1
        else:
            nx, ny, nz = 1 + (nx - 1) % 6, 1 + (ny - 1) % 6, 1 + (nz - 1) % 4
            case = (None, 'u', 'l')[opt % 3]
            geo = geo_build.rect(mg, sub, nx, ny, nz, convention=conv, atmos=atm,
                                 order=order, case=case)
            if sub2 % 3 == 0 and geo.num_layers > 2:
                for col in geo.columnlist:
                    if rng.random() < 0.4:
                        lay = geo.layerlist[rng.randrange(1, geo.num_layers)]
                        col.surface = lay.bottom + rng.choice((0.25, 0.5, 1.0)) * lay.thickness
                        geo.set_column_num_layers(col)
                geo.setup_block_name_index()
                geo.setup_block_connection_name_index()
        self.geo = geo
        self.layers_fresh = True
        self.index_fresh = True
        return src

    # ---- deterministic sweep (C10 quantifier: every sequence of column / layer editing ops with
    #      every column subset on 2x2, 3x2 and the small mixed meshes, up to a bound)
    SWEEP_GEOS = (('rect', 2, 2), ('rect', 3, 2), ('toy', 0, 0), ('toy', 1, 0), ('toy', 2, 0))

    @staticmethod
    def sweep_masks(ncol):
        if ncol <= 4:
            return list(range(1, 2 ** ncol))
        ms = [1 << i for i in range(ncol)]
        ms += [(1 << i) | (1 << j) for i in range(ncol) for j in range(i + 1, ncol)]
        return ms + [2 ** ncol - 1]

    @classmethod
    def sweep_alphabet(cls, gi):
        kind, a, b = cls.SWEEP_GEOS[gi]
        ncol = a * b if kind == 'rect' else (5, 6, 5)[a]
        masks = cls.sweep_masks(ncol)
        ops = [['XREFINE', [m, bm]] for m in masks for bm in range(4)]
        ops += [['XSPLIT', [c, k]] for c in range(ncol) for k in range(4)]
        ops += [['XDECOMP', [m]] for m in masks]
        ops += [['XREDUCE', [m]] for m in masks if m != 2 ** ncol - 1]
        ops += [['DEL_COL', [c, 0, 0, 0]] for c in range(ncol)]
        ops += [['XREFLAY', [lm, f]] for lm in (1, 2, 3) for f in (2, 3)]
        ops += [['XSETSURF', [m, lv]] for m in masks for lv in range(2)]
        ops += [['XRENCOL', [c, k]] for c in range(ncol) for k in range(2)]
        ops += [['CHECK_FIX', [0, 0, 0, 0]], ['REFRESH', [0, 0, 0, 0]]]
        return ops

    _SWEEP = None

    @classmethod
    def sweep_layout(cls):
        if cls._SWEEP is None:
            segs = []
            for gi in range(len(cls.SWEEP_GEOS)):
                a = len(cls.sweep_alphabet(gi))
                segs.append((gi, 1, a))
                segs.append((gi, 2, a * a))
            cls._SWEEP = segs
        return cls._SWEEP

    @classmethod
    def sweep_size(cls, tier):
        return sum(s[2] for s in cls.sweep_layout())

    @classmethod
    def sweep_case(cls, i, tier):
        for gi, L, cnt in cls.sweep_layout():
            if i < cnt:
                alpha = cls.sweep_alphabet(gi)
                ops = []
                for _ in range(L):
                    k, c = alpha[i % len(alpha)]
                    ops.append([k, list(c), None])
                    i //= len(alpha)
                return ({'tier': tier, 'sweep': True, 'source': 'sweep', 'bufsize': None},
                        [['XINIT', [gi], None]] + ops)
            i -= cnt
        raise IndexError(i)

    def op_XINIT(self, ch):
        kind, a, b = self.SWEEP_GEOS[ch[0] % len(self.SWEEP_GEOS)]
        if kind == 'rect':
            self.geo = geo_build.rect(self.mg, 7, a, b, 2, convention=0, atmos=0)
        else:
            self.geo = geo_build.toy(self.mg, a, convention=0, atmos=0)
        self.layers_fresh = self.index_fresh = True
        return ch[0]

    def mask_cols(self, mask):
        cols = [c for i, c in enumerate(self.geo.columnlist) if mask >> i & 1]
        return cols or [self.geo.columnlist[0]]

    def op_XREFINE(self, ch):
        geo = self.geo
        if any(len(c.node) not in (3, 4) for c in geo.columnlist) or geo.num_columns > 400:
            return False
        bisect = (False, True, 'x', 'y')[ch[1] % 4]
        cols = self.mask_cols(ch[0])
        self.call(lambda: geo.refine([c.name for c in cols], bisect=bisect), 'refine')
        return (ch[0], str(bisect))

    def op_XSPLIT(self, ch):
        geo = self.geo
        col = geo.columnlist[ch[0] % len(geo.columnlist)]
        if len(col.node) != 4:
            return False
        ok = self.call(lambda: geo.split_column(col.name, col.node[ch[1] % 4].name), 'split_column')
        if not ok:
            raise Violation('EXC.split_column', 'split_column refused a quadrilateral column')

    def op_XDECOMP(self, ch):
        cols = self.mask_cols(ch[0])
        self.call(lambda: self.geo.decompose_columns([c.name for c in cols]), 'decompose_columns')

    def op_XREDUCE(self, ch):
        geo = self.geo
        cols = self.mask_cols(ch[0])
        if len(cols) >= len(geo.columnlist):
            return False
        # keep the geometry in one piece (the property quantifies over connected geometries)
        class _G(object):
            pass
        g2 = _G()
        g2.columnlist = cols
        if not edge_connected(g2):
            return False
        self.call(lambda: geo.reduce([c.name for c in cols]), 'reduce')

    def op_XREFLAY(self, ch):
        geo = self.geo
        if len(geo.layerlist) < 2 or len(geo.layerlist) > 30:
            return False
        lays = [l for i, l in enumerate(geo.layerlist[1:]) if ch[0] >> i & 1] or [geo.layerlist[1]]
        self.call(lambda: geo.refine_layers([l.name for l in lays], 2 + ch[1] % 2), 'refine_layers')

    def op_XSETSURF(self, ch):
        geo = self.geo
        if len(geo.layerlist) < 3:
            return False
        lay = geo.layerlist[1]
        z = lay.centre if ch[1] % 2 else lay.bottom
        cols = self.mask_cols(ch[0])
        def go():
            for c in cols:
                c.surface = z
                geo.set_column_num_layers(c)
            geo.setup_block_name_index()
            geo.setup_block_connection_name_index()
        self.call(go, 'set surface')

    def op_XRENCOL(self, ch):
        geo = self.geo
        n = len(geo.columnlist)
        a = geo.columnlist[ch[0] % n]
        if ch[1] % 2 and n >= 2:
            b = geo.columnlist[(ch[0] + 1) % n]
            old, new = [a.name, b.name], [b.name, a.name]
        else:
            free = self.free_col_names(1, 0)
            if not free:
                return False
            old, new = a.name, free[0]
        ok = self.call(lambda: geo.rename_column(old, new), 'rename_column')
        if ok is False:
            raise Violation('EXC.rename_column', 'rename_column refused a valid one-to-one map')

    # ---- low level
    def op_ADD_NODE(self, ch):
        geo = self.geo
        name, _ = self.call(lambda: geo.new_node_name(), 'new_node_name')
        b = geo.bounds
        pos = [b[1][0] + 10.0 + ch[0] % 50, b[1][1] + 5.0 + ch[1] % 50]
        self.call(lambda: geo.add_node(self.mg.node(name, pos)), 'add_node')

    def op_DEL_NODE(self, ch):
        geo = self.geo
        orph = sorted((n for n in geo.nodelist if len(n.column) == 0), key=lambda n: n.name)
        if not orph:
            return False
        self.call(lambda: geo.delete_node(orph[ch[0] % len(orph)].name), 'delete_node')

    def boundary_edges(self):
        geo = self.geo
        cnt = {}
        for c in geo.columnlist:
            for i, n in enumerate(c.node):
                m = c.node[(i + 1) % len(c.node)]
                cnt.setdefault(frozenset((id(n), id(m))), []).append((c, n, m))
        return [v[0] for k, v in sorted(cnt.items(), key=lambda kv: (kv[1][0][0].name,
                                                                     kv[1][0][1].name))
                if len(v) == 1]

    def op_ADD_COL(self, ch):
        """A new triangle on a boundary edge: add_node + add_column + surface + add_connection."""
        import numpy as np
        geo, mg = self.geo, self.mg
        edges = self.boundary_edges()
        if not edges or not geo.layerlist:
            return False
        col, n1, n2 = edges[ch[0] % len(edges)]
        mid = 0.5 * (n1.pos + n2.pos)
        out = mid + 0.6 * (mid - col.centre)
        # the new triangle must not overlap the existing mesh (else the result is no geometry)
        def cross(o, a, b):
            return (a[0] - o[0]) * (b[1] - o[1]) - (a[1] - o[1]) * (b[0] - o[0])
        def segs_cross(p, q, a, b):
            d1, d2 = cross(a, b, p), cross(a, b, q)
            d3, d4 = cross(p, q, a), cross(p, q, b)
            return (d1 * d2 < 0) and (d3 * d4 < 0)
        for c in geo.columnlist:
            if c.contains_point(np.array(out)):
                return False
            nn = len(c.node)
            for i in range(nn):
                a, b = c.node[i].pos, c.node[(i + 1) % nn].pos
                if segs_cross(n1.pos, out, a, b) or segs_cross(n2.pos, out, a, b):
                    return False
        for n in geo.nodelist:
            if n is not n1 and n is not n2 and abs(cross(n1.pos, n2.pos, n.pos)) >= 0 and \
                    min(abs(cross(n1.pos, out, n.pos)), abs(cross(n2.pos, out, n.pos))) < 1e-9:
                # an existing node on one of the new edges
                lo = np.minimum(np.minimum(n1.pos, n2.pos), out) - 1e-9
                hi = np.maximum(np.maximum(n1.pos, n2.pos), out) + 1e-9
                if np.all(n.pos >= lo) and np.all(n.pos <= hi):
                    return False
        nname, _ = geo.new_node_name()
        cname, _ = geo.new_column_name()
        newnode = mg.node(nname, np.array(out))
        def go():
            geo.add_node(newnode)
            newcol = mg.column(cname, [n2, n1, newnode], surface=col.surface)
            geo.add_column(newcol)
            geo.set_column_num_layers(newcol)
            geo.add_connection(mg.connection([col, newcol]))
            geo.identify_neighbours()
        self.call(go, 'add_column')

    def op_ADD_COL_DUP(self, ch):
        """add_column with a name already in use is documented to add nothing."""
        geo, mg = self.geo, self.mg
        if len(geo.columnlist) < 2:
            return False
        a = geo.columnlist[ch[0] % len(geo.columnlist)]
        b = geo.columnlist[(ch[0] + 1 + ch[1] % (len(geo.columnlist) - 1)) % len(geo.columnlist)]
        dup = mg.column(a.name, list(b.node), surface=b.surface)
        self.call(lambda: geo.add_column(dup), 'add_column(existing name)')
        self.ctx.probes['add_column_existing_name'] += 1

    def op_DEL_COL(self, ch):
        geo = self.geo
        if len(geo.columnlist) < 2:
            return False
        col = geo.columnlist[ch[0] % len(geo.columnlist)]
        if not edge_connected(geo, without=col):
            return False          # would leave a geometry in several pieces
        self.call(lambda: geo.delete_column(col.name), 'delete_column')

    def op_DEL_CON(self, ch):
        geo = self.geo
        if not geo.connectionlist:
            return False
        con = geo.connectionlist[ch[0] % len(geo.connectionlist)]
        key = (con.column[0].name, con.column[1].name)
        self.call(lambda: geo.delete_connection(key), 'delete_connection')

    def op_ADD_CON(self, ch):
        geo = self.geo
        mc = sorted(geo.missing_connections, key=lambda c: (c.column[0].name, c.column[1].name))
        if not mc:
            return False
        con = mc[ch[0] % len(mc)]
        self.call(lambda: geo.add_connection(con), 'add_connection')

    def op_ADD_LAYER(self, ch):
        geo = self.geo
        if not geo.layerlist:
            return False
        bot = geo.layerlist[-1]
        th = (5.0, 10.0, 25.0)[ch[0] % 3]
        for k in range(1, 200):
            try:
                name = geo.layer_name_from_number(k + ch[1] % 50)
            except self.mg.NamingConventionError:
                return False          # more layers than the naming convention has names for
            if name not in geo.layer:
                break
        else:
            return False
        lay = self.mg.layer(name, bot.bottom - th, bot.bottom - 0.5 * th, bot.bottom)
        self.call(lambda: geo.add_layer(lay), 'add_layer')
        self.layers_fresh = False

    def op_DEL_LAYER(self, ch):
        geo = self.geo
        if len(geo.layerlist) < 3:
            return False
        name = geo.layerlist[-1].name if ch[0] % 2 else \
            geo.layerlist[1 + ch[1] % (len(geo.layerlist) - 1)].name
        self.call(lambda: geo.delete_layer(name), 'delete_layer')
        self.call(lambda: geo.identify_layer_tops(), 'identify_layer_tops')
        self.layers_fresh = False

    def op_RENAME_LAYER(self, ch):
        geo = self.geo
        if len(geo.layerlist) < 2:
            return False
        lay = geo.layerlist[ch[0] % len(geo.layerlist)]        # the atmosphere layer included
        L = geo.layername_length
        for k in range(50):
            new = ('%s' % 'zyxwvu'[(ch[1] + k) % 6] + '%d' % ((ch[2] + k) % 10)).rjust(L)[-L:]
            if new not in geo.layer:
                break
        else:
            return False
        ok = self.call(lambda: geo.rename_layer(lay.name, new), 'rename_layer')
        if ok is False:
            return False

    def op_ADD_WELL(self, ch):
        import numpy as np
        geo = self.geo
        if not geo.columnlist or not geo.layerlist:
            return False
        col = geo.columnlist[ch[0] % len(geo.columnlist)]
        name = 'w%4d' % (ch[1] % 10000)
        if name in geo.well:
            return False
        top, bot = geo.layerlist[0].bottom, geo.layerlist[-1].bottom
        npos = 2 + ch[2] % 5
        pos = [np.array([col.centre[0] + 0.1 * k, col.centre[1] - 0.2 * k,
                         top + (bot - top) * k / (npos - 1.0)]) for k in range(npos)]
        if ch[3] % 3 == 2 and npos >= 3:
            # a deviated well whose last leg rises again ("toe-up"), and a flat leg
            pos[-1][2] = pos[-2][2] + 0.25 * (top - bot) / npos
            if npos >= 4:
                pos[1][2] = pos[0][2]
            self.ctx.probes['well_track_not_monotonic'] += 1
        self.call(lambda: geo.add_well(self.mg.well(name, pos)), 'add_well')

    def op_DEL_WELL(self, ch):
        geo = self.geo
        if not geo.welllist:
            return False
        self.call(lambda: geo.delete_well(geo.welllist[ch[0] % len(geo.welllist)].name),
                  'delete_well')

    def op_REFRESH(self, ch):
        geo = self.geo
        def go():
            for col in geo.columnlist:
                geo.set_column_num_layers(col)
            geo.setup_block_name_index()
            geo.setup_block_connection_name_index()
        self.call(go, 'refresh')
        self.layers_fresh = True

    # ---- high level
    def free_col_names(self, k, seedc):
        geo = self.geo
        L = geo.colname_length
        out = []
        i = seedc % 500
        while len(out) < k and i < seedc % 500 + 5000:
            i += 1
            if geo.convention in (0, 3):
                nm = ('z' + 'abcdefghij'[i % 10] + 'klmnopqrst'[(i // 10) % 10]).rjust(L)[-L:]
            else:
                nm = ('%d' % (900 + i % 99 if L == 3 else 50 + i % 49)).rjust(L)[-L:]
            if nm not in geo.column and nm not in out:
                out.append(nm)
        return out

    def op_RENAME_COL(self, ch):
        geo = self.geo
        n = len(geo.columnlist)
        rng = random.Random(H('rencol', ch[2]))
        mode = ch[0] % 4
        k = min(n, 1 + ch[1] % 4)
        picks = [c.name for c in rng.sample(geo.columnlist, k)]
        if mode == 0:
            new = self.free_col_names(1, ch[3])
            if not new:
                return False
            old, newn, tag = picks[0], new[0], 'single'
        elif mode == 1 or len(picks) < 2:
            new = self.free_col_names(len(picks), ch[3])
            if len(new) < len(picks):
                return False
            old, newn, tag = picks, new, 'list'
        elif mode == 2:
            old, newn, tag = picks[:2], picks[:2][::-1], 'swap'
        else:
            old, newn, tag = picks, picks[1:] + picks[:1], 'cycle'
        ok = self.call(lambda: geo.rename_column(old, newn), 'rename_column')
        if ok is False:
            raise Violation('EXC.rename_column', 'rename_column refused a valid one-to-one map')
        self.ctx.probes['rename_col_' + tag] += 1
        return tag

    def op_RENAME_COL_BAD(self, ch):
        """A list rename in which one old name does not exist is refused (False or KeyError) and
        must leave every name, lookup key and derived list as it was."""
        geo = self.geo
        n = len(geo.columnlist)
        rng = random.Random(H('rencolbad', ch[2]))
        k = min(n, 1 + ch[1] % 3)
        old = [c.name for c in rng.sample(geo.columnlist, k)]
        new = self.free_col_names(k + 2, ch[3])
        if len(new) < k + 2:
            return False
        ghost = new.pop()                      # a name no column has
        old.insert(1 + ch[0] % len(old), ghost)       # never first: some renames come before it
        before = (tuple(c.name for c in geo.columnlist), tuple(sorted(geo.column)),
                  tuple(sorted(geo.connection)),
                  tuple((c.column[0].name, c.column[1].name) for c in geo.connectionlist),
                  tuple(geo.block_name_list), tuple(geo.block_connection_name_list))
        try:
            ok = geo.rename_column(old, new[:len(old)])
        except KeyError:
            ok = False
        except (SimCrash, SimBudgetExceeded):
            raise
        except Exception as e:
            raise Violation('EXC.rename_column', 'rename_column with an unknown old name raised %s'
                            % _short_tb(e))
        if ok is not False:
            raise Violation('J1.refused', 'rename_column(%r, ...) accepted a column name that '
                            'does not exist' % (old,))
        after = (tuple(c.name for c in geo.columnlist), tuple(sorted(geo.column)),
                 tuple(sorted(geo.connection)),
                 tuple((c.column[0].name, c.column[1].name) for c in geo.connectionlist),
                 tuple(geo.block_name_list), tuple(geo.block_connection_name_list))
        for what, a, b in zip(('column names', 'column lookup keys', 'connection lookup keys',
                               'connection list', 'block name list', 'connection name list'),
                              before, after):
            if a != b:
                raise Violation('J1.refused', 'a refused rename_column(%r, ...) changed the %s'
                                % (old, what))
        self.ctx.probes['rename_col_refused'] += 1

    def op_SPLIT(self, ch):
        geo = self.geo
        quads = [c for c in geo.columnlist if len(c.node) == 4]
        if not quads:
            return False
        col = quads[ch[0] % len(quads)]
        node = col.node[ch[1] % 4]
        ok = self.call(lambda: geo.split_column(col.name, node.name), 'split_column')
        if not ok:
            raise Violation('EXC.split_column', 'split_column refused a quadrilateral column and '
                            'one of its nodes')

    def op_REFINE(self, ch):
        geo = self.geo
        if any(len(c.node) not in (3, 4) for c in geo.columnlist):
            return self.refine_declined(ch)
        mode = ch[0] % 8
        bisect = (False, False, False, True, 'x', 'y', False, False)[mode]
        if geo.num_columns > 400:
            return False                       # bound on the size of the simulated geometry
        if ch[1] % 5 == 0 and geo.num_columns <= 120:
            cols = []
        else:
            cols = self.pick_cols(ch[1], ch[2], kmax=6)
        edge = []
        if mode == 6 and cols:
            inside = set(id(c) for c in cols)
            edge = sorted(set(x for c in cols for x in c.neighbour if id(x) not in inside),
                          key=lambda c: c.name)[:2]
        arg = [c.name for c in cols] if ch[3] % 2 else list(cols)
        earg = [c.name for c in edge] if ch[3] % 2 else list(edge)
        n0 = geo.num_columns
        self.call(lambda: geo.refine(arg, bisect=bisect, bisect_edge_columns=earg), 'refine')
        self.ctx.probes['refine_bisect_%s' % (bisect,)] += 1
        return (str(bisect), int(not cols), min(len(cols), 3))

    def refine_declined(self, ch):
        """refine() on a selection that contains or adjoins a column with more than four nodes is
        declined (a printed message): nothing may have changed."""
        geo = self.geo
        poly = [c for c in geo.columnlist if len(c.node) > 4]
        small = [c for c in geo.columnlist if len(c.node) in (3, 4) and
                 any(len(x.node) > 4 for x in c.neighbour)]
        pick = (poly + small)[ch[1] % len(poly + small)]
        bisect = (False, False, True, 'x')[ch[0] % 4]
        before = (tuple(n.name for n in geo.nodelist), tuple(c.name for c in geo.columnlist),
                  tuple(tuple(n.name for n in c.node) for c in geo.columnlist),
                  tuple(sorted(geo.connection)), tuple(geo.block_name_list))
        self.call(lambda: geo.refine([pick], bisect=bisect), 'refine (to be declined)')
        if geo.column.get(pick.name) is not pick:
            # (a bisection whose sides do not touch the many-sided neighbour is carried out)
            self.ctx.probes['refine_next_to_polygon_carried_out'] += 1
            return ('carried out', str(bisect))
        after = (tuple(n.name for n in geo.nodelist), tuple(c.name for c in geo.columnlist),
                 tuple(tuple(n.name for n in c.node) for c in geo.columnlist),
                 tuple(sorted(geo.connection)), tuple(geo.block_name_list))
        for what, a, b in zip(('nodes', 'columns', 'column nodes', 'connections', 'block names'),
                              before, after):
            if a != b:
                raise Violation('J1.refused', 'refine(bisect=%r) of column %r was declined (columns '
                                'with more than 4 nodes) but changed the %s: %r -> %r'
                                % (bisect, pick.name, what,
                                   sorted(set(a) - set(b))[:3], sorted(set(b) - set(a))[:3]),
                                key='refine-declined-bisect' if bisect else '-')
        self.ctx.probes['refine_declined_bisect_%s' % (bisect,)] += 1
        return ('declined', str(bisect))

    def op_REFINE_LAYERS(self, ch):
        geo = self.geo
        if len(geo.layerlist) < 2 or len(geo.layerlist) > 40:
            return False
        rng = random.Random(H('rl', ch[1]))
        lays = [] if ch[0] % 3 == 0 else \
            [l for l in geo.layerlist[1:] if rng.random() < 0.5] or [geo.layerlist[1]]
        factor = 2 + ch[2] % 3
        arg = [l.name for l in lays] if ch[3] % 2 else list(lays)
        self.call(lambda: geo.refine_layers(arg, factor), 'refine_layers')
        return (int(not lays), factor)

    def op_DECOMPOSE(self, ch):
        geo = self.geo
        big = [c for c in geo.columnlist if len(c.node) > 4]
        if ch[0] % 3 == 0:
            arg = []
        else:
            cols = self.pick_cols(ch[1], ch[2], connected=False, kmax=5)
            if big and ch[0] % 3 == 1:
                cols = [big[ch[3] % len(big)]] + [c for c in cols if len(c.node) <= 4][:2]
            arg = [c.name for c in cols] if ch[3] % 2 else cols
        self.call(lambda: geo.decompose_columns(arg), 'decompose_columns')
        if big:
            self.ctx.probes['decompose_polygon'] += 1
        return int(bool(big))

    def op_REDUCE(self, ch):
        geo = self.geo
        if len(geo.columnlist) < 2:
            return False
        cols = self.pick_cols(ch[0] % max(1, len(geo.columnlist) - 1), ch[1])
        if ch[3] % 4 == 3:
            # keep everything but one interior column (a hole: nothing for check() to repair)
            try:
                bn = set(n.name for n in geo.boundary_nodes)
            except Exception:
                bn = None              # (a mesh with connections missing has no boundary to find)
            inner = [] if bn is None else \
                [c for c in geo.columnlist if not any(n.name in bn for n in c.node)]
            if inner:
                hole = inner[ch[0] % len(inner)]
                cols = [c for c in geo.columnlist if c is not hole]
                self.ctx.probes['reduce_to_all_but_one_interior_column'] += 1
        arg = [c.name for c in cols] if ch[2] % 2 else cols
        self.call(lambda: geo.reduce(arg), 'reduce')

    def op_CHECK_FIX(self, ch):
        geo = self.geo
        before = [(c.column[0].name, c.column[1].name) for c in geo.connectionlist]
        self.call(lambda: geo.check(fix=True, silent=True), 'check(fix)')
        after = [(c.column[0].name, c.column[1].name) for c in geo.connectionlist]
        return 'changed' if before != after else 'same'

    def op_SNAP(self, ch):
        geo = self.geo
        if not self.layers_fresh or len(geo.layerlist) < 2 or \
                any(c.num_layers < 1 for c in geo.columnlist):
            return False        # a column with no layer left has no surface layer to snap to
        cols = [] if ch[0] % 2 else [c.name for c in self.pick_cols(ch[1], ch[2], False, 6)]
        th = (0.5, 1.0, 3.0, 8.0)[ch[3] % 4]
        # a column already sitting on the bottom of the model cannot be snapped lower
        self.call(lambda: geo.snap_columns_to_layers(th, cols), 'snap_columns_to_layers')

    def op_SNAP_NEAREST(self, ch):
        geo = self.geo
        if not self.layers_fresh or len(geo.layerlist) < 2 or \
                any(c.num_layers < 1 for c in geo.columnlist):
            return False
        cols = [] if ch[0] % 2 else [c.name for c in self.pick_cols(ch[1], ch[2], False, 6)]
        self.call(lambda: geo.snap_columns_to_nearest_layers(cols), 'snap_nearest')

    def op_SET_SURFACE(self, ch):
        geo = self.geo
        if len(geo.layerlist) < 2:
            return False
        rng = random.Random(H('surf', ch[2]))
        cols = self.pick_cols(ch[0], ch[1], False, 8)
        top, bot = geo.layerlist[0].bottom, geo.layerlist[-1].bottom
        def go():
            for c in cols:
                r = rng.random()
                if r < 0.3:
                    lay = geo.layerlist[rng.randrange(1, len(geo.layerlist))]
                    z = lay.top if rng.random() < 0.5 else lay.centre
                elif r < 0.4:
                    z = top + rng.choice((1.0, 12.5))
                else:
                    z = bot + (top - bot) * rng.uniform(0.05, 1.0)
                c.surface = z
                geo.set_column_num_layers(c)
            geo.setup_block_name_index()
            geo.setup_block_connection_name_index()
        self.call(go, 'set surface')

    def op_TRANSLATE(self, ch):
        sh = [(-100.0, 0.0, 12.5, 1e4)[ch[0] % 4], (0.0, 33.3, -5.0)[ch[1] % 3],
              (0.0, 0.0, 50.0, -7.5)[ch[2] % 4]]
        self.call(lambda: self.geo.translate(sh, wells=bool(ch[3] % 2)), 'translate')

    def op_ROTATE(self, ch):
        ang = (30.0, 90.0, -45.0, 180.0, 7.3)[ch[0] % 5]
        centre = None if ch[1] % 2 else [0.0, 0.0]
        self.call(lambda: self.geo.rotate(ang, centre, wells=bool(ch[2] % 2)), 'rotate')

    def op_COPY_LAYERS(self, ch):
        nz = 1 + ch[1] % 5
        geo = self.geo
        if not geo.layerlist:
            return False
        # the other geometry's layering may start at the same or at a higher datum
        lift = (0.0, 0.0, 7.5, 25.0)[ch[2] % 4]
        other = geo_build.rect(self.mg, ch[0], 1, 1, nz, convention=geo.convention,
                               atmos=geo.atmosphere_type,
                               origin=[0., 0., geo.layerlist[0].bottom + lift])
        if any(c.surface <= other.layerlist[-1].bottom for c in geo.columnlist):
            return False        # the other layer structure must still contain every surface
        self.other = other      # the source geometry lives on and may be edited later
        self.call(lambda: self.geo.copy_layers_from(other), 'copy_layers_from')
        self.layers_fresh = True

    def op_SET_OPTION(self, ch):
        """Header options with setters that recompute the derived name lists."""
        geo = self.geo
        if ch[0] % 2 == 0:
            opts = [None, 'layer_column']
            if all(len(c.node) in (3, 4) for c in geo.columnlist):
                opts.append('dmplex')
            new = opts[ch[1] % len(opts)]
            def go():
                geo.block_order = new
            self.call(go, 'block_order = %r' % (new,))
            return ('order', str(new))
        new = ch[1] % 3
        def go2():
            geo.atmosphere_type = new
        self.call(go2, 'atmosphere_type = %d' % new)
        return ('atm', new)

    def op_EDIT_OTHER(self, ch):
        """An edit of the *other* geometry that layers were copied from: this geometry must not
        notice (two long-lived objects)."""
        other = getattr(self, 'other', None)
        if other is None:
            return False
        if ch[0] % 2:
            self.call(lambda: other.translate([0., 0., (5.0, -12.5, 40.0)[ch[1] % 3]]),
                      'other.translate')
        else:
            lay = other.layerlist[-1]
            self.call(lambda: other.rename_layer(lay.name, 'zq'[ch[1] % 2] * len(lay.name)),
                      'other.rename_layer')
        self.ctx.probes['other_geometry_edited'] += 1

    def op_DEL_ORPHANS(self, ch):
        self.call(lambda: self.geo.delete_orphans(), 'delete_orphans')

    def op_FIT_SURFACE(self, ch):
        import numpy as np
        geo = self.geo
        if not self.layers_fresh or len(geo.layerlist) < 2 or len(geo.columnlist) > 60:
            return False
        if any(len(c.node) not in (3, 4) for c in geo.columnlist) or \
                any(c.num_layers < 1 for c in geo.columnlist):
            return False
        rng = random.Random(H('fit', ch[0]))
        b = geo.bounds
        top, bot = geo.layerlist[0].bottom, geo.layerlist[-1].bottom
        pts = [[rng.uniform(b[0][0], b[1][0]), rng.uniform(b[0][1], b[1][1]),
                bot + (top - bot) * rng.uniform(0.2, 1.0)] for _ in range(5 + ch[1] % 30)]
        self.call(lambda: geo.fit_surface(np.array(pts), silent=True), 'fit_surface')

    def op_PERSIST(self, ch):
        geo = self.geo
        ctx = self.ctx
        self.persist_pre_ok = not mesh_problems(geo)
        if not self.layers_fresh:
            return False
        # (every geometry the machine builds has right-justified names; an op that creates
        # names of the other justification is what the round trip below exposes)
        if geo.orphans or not self.persist_pre_ok:
            return False
        if not fits_fields(geo):
            ctx.probes['persist_skipped_coordinates_beyond_field'] += 1
            return False
        # the file carries two decimals: a surface within rounding distance of a layer boundary
        # (without sitting on it) would change the block structure -- outside the round-trip domain
        for c in geo.columnlist:
            for l in geo.layerlist:
                if 0.0 < abs(c.surface - l.bottom) < 0.0101:
                    return False
        fs = ctx.fs
        fs.begin_op(2000000)
        path = ROOT + 'persist_geo.dat'
        names = my_name_lists(geo)     # what the file must give back (the object's own lists
        #                                may be legitimately stale after low-level edits)
        self.call(lambda: geo.write(path), 'write')
        fs.crash()
        fs.restart()
        fs.begin_op(2000000)
        if ch[0] % 3 == 2:
            # the same long-lived object re-reads its own file (after being edited meanwhile)
            def reread():
                geo.read(path)
                return geo
            if ch[1] % 2 and all(len(c.node) in (3, 4) for c in geo.columnlist) and \
                    geo.num_columns < 120:
                self.call(lambda: geo.refine([geo.columnlist[0].name]), 'refine')
            g2 = self.call(reread, 'read into the same object')
            ctx.probes['persist_reread_same_object'] += 1
        else:
            g2 = self.call(lambda: self.mg.mulgrid(path), 'read')
        if (g2.block_name_list, g2.block_connection_name_list) != tuple(names):
            raise Violation('J6.persist', 'name lists differ after a file round trip')
        g2.filename = ''
        self.geo = g2
        ctx.probes['persist_restart'] += 1


