"""C13 — initial-conditions file round trip (machine `store`, component t2incon)."""
import glob
import os
import random

from ..engine import Violation, _short_tb
from ..seeds import H
from .. import fortran as F
from .store_base import StoreMachine, swarm_knobs, gen_fault

REPO = os.environ.get('VERIF_REPO', '/repo')
LET = 'abcdefghijklmnopqrstuvwxyzABCDEFGHIJKLMNOPQRSTUVWXYZ'

MANT = (1.0, 1.2345678901234, 9.9999999999999, 9.99999999999995, 1.00000000000005, 3.0,
        5.5555555555555, 1.013, 2.718281828459045, 7.0e0, 1.5, 9.9999999999999999)


def gen_real(rng, neg_ok, exp3_ok):
    """A real from the sign x exponent x mantissa lattice, restricted to what fits its field."""
    r = rng.random()
    if r < 0.07:
        return 0.0
    m = rng.choice(MANT) if rng.random() < 0.6 else rng.uniform(1, 10)
    neg = neg_ok and rng.random() < 0.3
    if exp3_ok and not neg and rng.random() < 0.15:
        e = rng.choice((100, 101, 150, 299, -100, -101, -200, -299))
    else:
        # |exponent| <= 97 keeps a two-digit exponent in both the d.ddd (Python) and the 0.ddd
        # (Fortran) rendering even when the mantissa rounds up to the next power of ten
        e = rng.choice((0, 0, 1, 5, 6, -1, -5, -14, 10, 20, 97, -97, rng.randint(-97, 97)))
    x = m * 10.0 ** e
    return -x if neg else x


def gen_name(rng):
    """Five-character block name as the four naming conventions produce them (canonical
    in-memory form: the (a3,i2) blank appears only after a non-digit third character)."""
    conv = rng.randrange(11)
    if conv == 10:     # punctuation is allowed in the first three characters (valid_blockname)
        p = rng.choice('+:#.-*')
        body = rng.choice(LET) + rng.choice(LET)
        nm = rng.choice((p + body, ' ' + p + body[0], body[0] + p + body[1])) + \
            '%2d' % rng.randint(0, 99)
        conv = -1
    else:
        conv %= 5
    if conv == -1:
        pass
    elif conv == 0:      # 3 chars column + 2 digit layer
        col = ''.join(rng.choice(LET) for _ in range(rng.randint(1, 3))).rjust(3)
        nm = col + '%2d' % rng.randint(0, 99)
    elif conv == 1:    # 3 chars layer + 2 digit column
        lay = ''.join(rng.choice(LET) for _ in range(rng.randint(1, 3))).rjust(3)
        nm = lay + '%2d' % rng.randint(0, 99)
    elif conv == 2:    # 2 chars layer + 3 digit column
        lay = ''.join(rng.choice(LET) for _ in range(rng.randint(1, 2))).rjust(2)
        nm = lay + '%3d' % rng.randint(0, 999)
    elif conv == 3:    # 3 chars + 2 digits, zero padded third position digits (e.g. 'AA105')
        nm = ''.join(rng.choice(LET) for _ in range(2)) + '%d' % rng.randint(0, 9) + \
            '%02d' % rng.randint(0, 99)
    else:              # digits in the column part
        nm = ('%3d' % rng.randint(0, 999)) + '%2d' % rng.randint(0, 99)
    # canonical in-memory form
    if nm[2].isdigit() and nm[3] == ' ' and nm[4].isdigit():
        nm = nm[:3] + '0' + nm[4]
    if (not nm[2].isdigit()) and nm[3] == '0':
        nm = nm[:3] + ' ' + nm[4]
    return nm


def build_incon(t2incons, sub, nblk, nvar, flags):
    """Generated condition set.  flags bits: 1 porosity, 2 permeability (TOUGHREACT),
    4 nseq/nadd, 8 timing, 16 mixed per block."""
    rng = random.Random(H('incon', sub))
    inc = t2incons.t2incon()
    names = set()
    mixed = bool(flags & 16)
    anyperm = False
    for _ in range(nblk):
        for _try in range(50):
            nm = gen_name(rng)
            if nm not in names:
                break
        else:
            break
        names.add(nm)
        var = [gen_real(rng, True, True) for _ in range(nvar)]
        def on(bit):
            return bool(flags & bit) and (not mixed or rng.random() < 0.5)
        por = gen_real(rng, False, False) if on(1) else None
        perm = None
        if on(2):
            import numpy as np
            perm = np.array([gen_real(rng, False, False) for _ in range(3)])
            anyperm = True
        nseq = nadd = None
        if on(4):
            nseq, nadd = rng.choice((0, 1, 7, 99999, rng.randint(0, 99999))), \
                rng.choice((0, 1, 12345, rng.randint(0, 99999)))
        inc.add_incon(t2incons.t2blockincon(var, nm, por, perm, nseq, nadd))
    if anyperm:
        inc.simulator = 'TOUGHREACT'
    if flags & 8:
        big = 999 if anyperm else 99999
        inc.timing = {'kcyc': rng.choice((0, 1, 99999, rng.randint(0, 99999))),
                      'iter': rng.choice((0, 3, 99999, rng.randint(0, 99999))),
                      'nm': rng.choice((0, 1, big, rng.randint(0, big))),
                      'tstart': gen_real(rng, False, False),
                      # the long header prints sumtim again with 6 decimals: a value representable
                      # there (else the header is re-derived from the 9-decimal rounding of the
                      # timing record -- double rounding no writer can make stable)
                      'sumtim': float('%.6e' % gen_real(rng, False, False))}
        if rng.random() < 0.4:
            # the record is a dictionary: the order its keys were assigned in means nothing
            keys = list(inc.timing)
            rng.shuffle(keys)
            inc.timing = dict((k, inc.timing[k]) for k in keys)
    return inc


def foreign_incon(sub, nblk, nvar, flags):
    """A SAVE-style file as a Fortran TOUGH2 / TOUGHREACT would write it (independent of the
    repo's format tables), together with the plain-data content it carries."""
    rng = random.Random(H('foreign-incon', sub))
    react = bool(flags & 2) and nblk > 0
    style = rng.choice(('E', 'E', 'D', 'e'))
    names, blocks, lines = set(), [], []
    for _ in range(nblk):
        nm = gen_name(rng)
        if nm in names:
            continue
        names.add(nm)
        var = [gen_real(rng, True, True) for _ in range(nvar)]
        por = gen_real(rng, False, False) if (flags & 1) else None
        perm = [gen_real(rng, False, False) for _ in range(3)] if react else None
        nseq, nadd = (rng.randint(0, 99999), rng.randint(0, 99999)) if (flags & 4) else (None, None)
        blocks.append((nm, var, por, perm, nseq, nadd))
    time_real = gen_real(rng, False, False)
    head = 'INCON -- INITIAL CONDITIONS FOR%5d ELEMENTS AT TIME %s' % (len(blocks),
                                                                      F.fE(time_real, 13, 6))
    lines.append(head)
    for nm, var, por, perm, nseq, nadd in blocks:
        # the simulator prints the name as (a3,i2): a zero in column 4 comes out as a blank
        pn = nm
        if pn[3:5].isdigit():
            pn = pn[:3] + '%2d' % int(pn[3:5])
        l = F.fA(pn, 5) + F.fI(nseq, 5) + F.fI(nadd, 5) + F.fE(por, 15, 9, style)
        if perm is not None:
            l += ''.join(F.fE(k, 15, 9, style) for k in perm)
        lines.append(l.rstrip() if rng.random() < 0.5 else l)
        v = list(var)
        while v:
            lines.append(''.join(F.fE(x, 20, 13, style) for x in v[:4]))
            v = v[4:]
    timing = None
    if flags & 8:
        lines.append('+++')
        kcyc, itr, nm_ = rng.randint(0, 99999), rng.randint(0, 99999), rng.randint(0, 999)
        ts, st = gen_real(rng, False, False), gen_real(rng, False, False)
        if react:
            lines.append(F.fI(kcyc, 6) + F.fI(itr, 6) + F.fI(nm_, 3) + F.fE(ts, 15, 9, style) +
                         F.fE(st, 15, 9, style))
        else:
            lines.append(F.fI(kcyc, 5) + F.fI(itr, 5) + F.fI(nm_, 5) + F.fE(ts, 15, 9, style) +
                         F.fE(st, 15, 9, style))
        timing = {'kcyc': kcyc, 'iter': itr, 'nm': nm_, 'tstart': ts, 'sumtim': st}
    else:
        lines.append('')
        lines.append('')
    data = ('\n'.join(lines) + '\n').encode()
    # what the file carries is what is printed in it (Fortran E15.9 has 9 significant digits)
    snap = parse_incon_independent(data, nvar)
    if [b[0] for b in snap['blocks']] != [b[0] for b in blocks]:
        from ..simfs import HarnessError
        raise HarnessError('foreign writer / independent parser disagree on block names')
    return data, snap


def parse_incon_independent(data, nvar):
    """Harness's own column reader for an incon file (used on the shipped files)."""
    lines = data.decode('utf-8', 'replace').replace('\r\n', '\n').split('\n')
    i, blocks, timing, react = 1, [], None, False
    while i < len(lines):
        l = lines[i]
        if not l.strip():
            break
        if l.startswith('+++'):
            t = lines[i + 1] if i + 1 < len(lines) else ''
            if t.strip():
                t = t.ljust(80)
                if react:
                    timing = {'kcyc': F.iread(t[0:6]), 'iter': F.iread(t[6:12]),
                              'nm': F.iread(t[12:15]), 'tstart': F.fread(t[15:30]),
                              'sumtim': F.fread(t[30:45])}
                else:
                    timing = {'kcyc': F.iread(t[0:5]), 'iter': F.iread(t[5:10]),
                              'nm': F.iread(t[10:15]), 'tstart': F.fread(t[15:30]),
                              'sumtim': F.fread(t[30:45])}
            break
        l = l.ljust(80)
        nm = l[0:5]
        if nm[2].isdigit() and nm[3] == ' ' and nm[4].isdigit():
            nm = nm[:3] + '0' + nm[4]
        nseq, nadd, por = F.iread(l[5:10]), F.iread(l[10:15]), F.fread(l[15:30])
        ks = [F.fread(l[30 + 15 * k:45 + 15 * k]) for k in range(3)]
        perm = tuple(ks) if all(k is not None for k in ks) else None
        if perm:
            react = True
        var = []
        i += 1
        while True:
            vl = lines[i].ljust(80)
            vals = [F.fread(vl[20 * k:20 * k + 20]) for k in range(4)]
            while vals and vals[-1] is None:
                vals.pop()
            var += vals
            i += 1
            if nvar is None or len(var) >= nvar:
                break
        blocks.append((nm, tuple(var), por, perm, nseq, nadd))
    return {'sim': 'TOUGHREACT' if react else 'TOUGH2', 'timing': timing, 'blocks': blocks}


# the seven shipped files and their number of primary variables (hand-written, from the
# simulator/EOS each came from; the .npy arrays beside them agree)
SHIPPED = (('TOUGH2/1/case1.incon', 3), ('TOUGH2/2/INCON', 6), ('TOUGH2/3/test.incon', 2),
           ('TOUGHREACT/1/SAVE_1', 2), ('AUTOUGH2/3/case3.incon', 2),
           ('AUTOUGH2/1/case1.incon', 3), ('AUTOUGH2/2/case2.incon', 3))
_CACHE = {}


def shipped(i, tier):
    n = len(SHIPPED) if tier == 'thorough' else 5     # the two > 1 MB files: thorough only
    rel, nvar = SHIPPED[i % n]
    if rel not in _CACHE:
        path = os.path.join(REPO, 'tests', 'incon', rel)
        data = open(path, 'rb').read()
        anchors = {}
        import numpy as np
        for a in ('variable', 'porosity', 'permeability'):
            f = os.path.join(os.path.dirname(path), a + '.npy')
            if os.path.exists(f):
                anchors[a] = np.load(f)
        _CACHE[rel] = (data, parse_incon_independent(data, nvar), anchors)
    return (rel, nvar) + _CACHE[rel]


class InconMachine(StoreMachine):
    KEEP_AFTER_FAILED_OPEN = True
    PROP = 'C13'
    OPS = ('NEW', 'EDIT', 'W', 'R', 'CYCLE', 'FOREIGN', 'SHIPPED', 'CRASH')

    @classmethod
    def knobs(cls, rng, tier):
        k = swarm_knobs(rng, tier)
        k['max_blocks'] = rng.choice((0, 1, 3, 8, 20, 60))
        w = {op: (rng.random() if rng.random() < 0.85 else 0.0) for op in cls.OPS}
        w['W'] = max(w['W'], 0.5)
        w['R'] = max(w['R'], 0.5)
        w['NEW'] = max(w['NEW'], 0.3)
        if k['fault_rate'] == 0.0:
            w['CRASH'] = 0.0
        else:
            w['CRASH'] *= 0.3
        k['weights'] = w
        k['nops'] = rng.randint(3, 20)
        return k

    @classmethod
    def generate(cls, rng, knobs):
        ops = []
        kinds = [o for o in cls.OPS if knobs['weights'][o] > 0]
        wts = [knobs['weights'][o] for o in kinds]
        mb = knobs['max_blocks']
        # always start with something to write
        ops.append(['NEW', [0, rng.randrange(10 ** 9), rng.randint(0, mb), rng.randint(1, 12),
                            rng.randrange(32)], None])
        for _ in range(knobs['nops']):
            kd = rng.choices(kinds, wts)[0]
            if kd in ('NEW', 'FOREIGN'):
                ch = [rng.randrange(3), rng.randrange(10 ** 9), rng.randint(0, mb),
                      rng.randint(1, 12), rng.randrange(32)]
            elif kd == 'EDIT':
                ch = [rng.randrange(3), rng.randrange(6), rng.randrange(1000), rng.randrange(10 ** 9)]
            elif kd == 'W':
                ch = [rng.randrange(3), rng.randrange(3), rng.randrange(2)]
            elif kd == 'R':
                ch = [rng.randrange(3), rng.randrange(8)]
            elif kd == 'CYCLE':
                ch = [rng.randrange(3)]
            elif kd == 'SHIPPED':
                ch = [rng.randrange(3), rng.randrange(64)]
            else:
                ch = []
            fault = gen_fault(rng, knobs, kd == 'W') if kd in ('W', 'R') else None
            ops.append([kd, ch, fault])
        return ops

    def __init__(self, ctx):
        StoreMachine.__init__(self, ctx)
        import t2incons
        self.t2 = t2incons

    # ---- StoreMachine interface
    def files_of(self, name, cfg):
        return [name + '.incon']

    def snap(self, inc):
        blocks = []
        for b in inc._blocklist:
            perm = None if b.permeability is None else tuple(float(x) for x in b.permeability)
            blocks.append((b.block, tuple(float(v) for v in b.variable),
                           None if b.porosity is None else float(b.porosity), perm,
                           b.nseq, b.nadd))
        if len(inc._block) != len(inc._blocklist) or \
                any(inc._block.get(b.block) is not b for b in inc._blocklist):
            raise Violation('O1', 'block lookup and block list of a condition set disagree')
        t = None if inc.timing is None else dict(inc.timing)
        return {'sim': inc.simulator, 'timing': t, 'blocks': blocks}

    def write(self, obj, name, cfg):
        obj.write(self.path(name + '.incon'), reset=cfg['reset'])

    def read(self, name, cfg, reuse=None):
        nv = cfg['nvar'] if (cfg['nvar'] is not None and cfg['nvar'] > 4) or cfg.get('tell') \
            else None
        # check_blocknames is a documented reader option; all generated names are valid, so it
        # must make no difference (the choice is made per read from the run's aux stream)
        cb = self.ctx.aux_rng.random() < 0.7
        self.ctx.probes['read_check_blocknames_%s' % cb] += 1
        if reuse is not None:
            reuse.read(self.path(name + '.incon'), num_variables=nv, check_blocknames=cb)
            return reuse
        return self.t2.t2incon(self.path(name + '.incon'), num_variables=nv, check_blocknames=cb)

    def compare(self, want, got, cfg, what):
        def bad(msg, sub):
            raise Violation('O1.' + sub, '%s: %s' % (what, msg))
        wb, gb = want['blocks'], got['blocks']
        if [b[0] for b in wb] != [b[0] for b in gb]:
            bad('block names/order differ: %r vs %r' % ([b[0] for b in wb][:6],
                                                        [b[0] for b in gb][:6]), 'names')
        for w, g in zip(wb, gb):
            if len(w[1]) != len(g[1]):
                bad('block %r has %d variables, expected %d' % (w[0], len(g[1]), len(w[1])), 'nvar')
            for x, y in zip(w[1], g[1]):
                if not F.close_e(x, y, 13):
                    bad('block %r variable %r read back as %r' % (w[0], x, y), 'var')
            if not F.close_e(w[2], g[2], 9):
                bad('block %r porosity %r read back as %r' % (w[0], w[2], g[2]), 'por')
            if (w[3] is None) != (g[3] is None):
                bad('block %r permeability %r read back as %r' % (w[0], w[3], g[3]), 'perm')
            if w[3] is not None:
                for x, y in zip(w[3], g[3]):
                    if not F.close_e(x, y, 9):
                        bad('block %r permeability %r read back as %r' % (w[0], w[3], g[3]), 'perm')
            if (w[4], w[5]) != (g[4], g[5]):
                bad('block %r nseq/nadd %r read back as %r' % (w[0], (w[4], w[5]), (g[4], g[5])), 'seq')
        if want['sim'] != got['sim']:
            bad('simulator flavour %r read back as %r' % (want['sim'], got['sim']), 'sim')
        wt = want['timing'] if not cfg['reset'] else None
        gt = got['timing']
        if (wt is None) != (gt is None):
            bad('timing %r read back as %r' % (wt, gt), 'timing')
        if wt is not None:
            for k in ('kcyc', 'iter', 'nm'):
                if wt.get(k) != gt.get(k):
                    bad('timing %s %r read back as %r' % (k, wt.get(k), gt.get(k)), 'timing')
            for k in ('tstart', 'sumtim'):
                if not F.close_e(wt.get(k), gt.get(k), 9):
                    bad('timing %s %r read back as %r' % (k, wt.get(k), gt.get(k)), 'timing')

    def o6_cfg(self, cfg):
        return dict(cfg, reset=False)        # the timing record is part of the model in memory

    def cfg_fp(self, cfg):
        return (cfg['reset'], cfg['nvar'])

    # ---- ops
    def apply(self, op):
        kind, ch, fault = op[0], op[1], (op[2] if len(op) > 2 else None)
        ctx = self.ctx
        ctx.stats['op_' + kind] += 1
        if kind == 'NEW':
            slot, sub, nblk, nvar, flags = ch
            nvar = 1 + (nvar - 1) % 12
            inc = build_incon(self.t2, sub, nblk, nvar, flags)
            self.objs[slot % self.SLOTS] = inc
            ctx.fp.append(('N', min(inc.num_blocks, 3), nvar, flags))
            ctx.digest.add('NEW', repr(self.snap(inc)))
        elif kind == 'EDIT':
            self.edit(*ch)
        elif kind == 'W':
            slot, ni, reset = ch
            slot = self.pick_slot(slot)
            obj = self.objs.get(slot)
            nvar = None
            if obj is not None:
                nvar = obj.num_variables if obj.num_blocks else None
                lens = set(len(b.variable) for b in obj._blocklist)
                if len(lens) > 1:
                    ctx.stats['skip_W_ragged'] += 1
                    return
            self.do_write(slot, self.NAMES[ni % 3],
                          {'reset': bool(reset), 'nvar': nvar}, fault)
        elif kind == 'R':
            ni, slot = ch
            reuse = None
            if slot % 8 >= 4 and self.objs:
                slot = self.pick_slot(slot)
                reuse = self.objs[slot]
            self.do_read(self.pick_name(ni), None if slot % 4 == 3 else slot % 4, fault,
                         reuse=reuse)
        elif kind == 'CYCLE':
            self.do_cycle(self.pick_name(ch[0]))
        elif kind == 'FOREIGN':
            ni, sub, nblk, nvar, flags = ch
            nvar = 1 + (nvar - 1) % 12
            data, snap = foreign_incon(sub, nblk, nvar, flags)
            name = self.NAMES[ni % 3]
            ctx.fs.put(name + '.incon', data)
            self.ref[name] = {'state': 'ack', 'snap': snap,
                              'cfg': {'reset': False, 'nvar': nvar if snap['blocks'] else None},
                              'files': [name + '.incon'], 'foreign': True}
            ctx.state_changes += 1
            ctx.fp.append(('F', min(len(snap['blocks']), 3), nvar, flags & 15))
            ctx.digest.add('FOREIGN', data)
        elif kind == 'SHIPPED':
            ni, which = ch
            rel, nvar, data, snap, anchors = shipped(which, ctx.knobs.get('tier'))
            if 'variable' in anchors:
                import numpy as np
                v = np.array([b[1] for b in snap['blocks']])
                if v.shape != anchors['variable'].shape or \
                        not np.allclose(v, anchors['variable'], rtol=1e-12, atol=0):
                    from ..simfs import HarnessError
                    raise HarnessError('independent parser disagrees with %s variable.npy' % rel)
            name = self.NAMES[ni % 3]
            ctx.fs.put(name + '.incon', data)
            self.ref[name] = {'state': 'ack', 'snap': snap,
                              'cfg': {'reset': False, 'nvar': nvar, 'tell': True},
                              'files': [name + '.incon'], 'foreign': True}
            ctx.state_changes += 1
            ctx.fp.append(('S', rel))
            ctx.probes['shipped_file_used'] += 1
            ctx.digest.add('SHIPPED', rel)
        elif kind == 'CRASH':
            self.do_crash()
        else:
            raise ValueError(kind)

    def edit(self, slot, what, idx, sub):
        ctx = self.ctx
        inc = self.objs.get(self.pick_slot(slot))
        if inc is None:
            ctx.stats['skip_EDIT'] += 1
            return
        rng = random.Random(H('edit', sub))
        nvar = inc.num_variables or rng.randint(1, 12)
        n = inc.num_blocks
        react = inc.simulator == 'TOUGHREACT'
        def fresh():
            for _ in range(50):
                nm = gen_name(rng)
                if nm not in inc._block:
                    return nm
            return None
        def blockincon(nm):
            import numpy as np
            perm = np.array([gen_real(rng, False, False) for _ in range(3)]) if react else None
            return self.t2.t2blockincon([gen_real(rng, True, True) for _ in range(nvar)], nm,
                                        gen_real(rng, False, False) if rng.random() < .5 else None,
                                        perm)
        what %= 6
        # the edit, stated on a plain list of (name, values): what the set must hold afterwards
        model = [(b.block, list(b.variable)) for b in inc._blocklist]
        def do(fn, text):
            try:
                return fn()
            except Violation:
                raise
            except Exception as e:
                raise Violation('EXC', '%s on a set of %d blocks raised %s' % (text, n, _short_tb(e)))
        if what == 0:
            nm = fresh()
            if nm:
                b = blockincon(nm)
                do(lambda: inc.add_incon(b), 'add_incon (new name)')
                model.append((nm, list(b.variable)))
        elif what == 1:
            nm = fresh()
            if nm:
                b = blockincon(nm)
                do(lambda: inc.insert_incon(idx % (n + 1), b), 'insert_incon')
                model.insert(idx % (n + 1), (nm, list(b.variable)))
        elif what == 2 and n:
            do(lambda: inc.delete_incon(inc._blocklist[idx % n].block), 'delete_incon')
            del model[idx % n]
        elif what == 3 and n:
            nm = inc._blocklist[idx % n].block
            vals = [gen_real(rng, True, True) for _ in range(nvar)]
            def assign():
                inc[nm] = vals                                                # item assignment
            do(assign, 'item assignment')
            model[idx % n] = (nm, list(vals))
            if react:
                # keep the flavour recorded in the file: some block must carry permeabilities
                if not any(b.permeability is not None for b in inc._blocklist):
                    inc.simulator = 'TOUGH2'
                    if inc.timing and inc.timing.get('nm', 0) is not None:
                        pass
        elif what == 4 and n:
            inc.porosity = gen_real(rng, False, False) if rng.random() < .7 else None
        elif what == 5 and n:
            nm = inc._blocklist[idx % n].block
            b = blockincon(nm)
            do(lambda: inc.add_incon(b), 'add_incon (existing name)')        # replace in place
            model[idx % n] = (nm, list(b.variable))
        if react and not any(b.permeability is not None for b in inc._blocklist):
            inc.simulator = 'TOUGH2'
        got = [(b.block, list(b.variable)) for b in inc._blocklist]
        if [g[0] for g in got] != [m[0] for m in model]:
            k = next((i for i, (g, m) in enumerate(zip(got, model)) if g[0] != m[0]),
                     min(len(got), len(model)))
            raise Violation('O1.edit', 'after edit %d the set lists blocks %r, the edit should '
                            'give %r (from position %d)' % (what, [g[0] for g in got][k:k + 3],
                                                            [m[0] for m in model][k:k + 3], k))
        for g, m in zip(got, model):
            if len(g[1]) != len(m[1]) or any(a != b and not (a != a and b != b)
                                             for a, b in zip(g[1], m[1])):
                raise Violation('O1.edit', 'after edit %d block %r holds %r, the edit should give '
                                '%r' % (what, g[0], g[1][:4], m[1][:4]))
        if sorted(inc._block) != sorted(m[0] for m in model) or \
                any(inc._block[b.block] is not b for b in inc._blocklist):
            raise Violation('O1.edit', 'after edit %d the by-name lookup of the set does not '
                            'describe its block list' % what)
        ctx.fp.append(('E', what))
        ctx.digest.add('EDIT', repr(self.snap(inc)))
