"""The `listing` machine (C05, C06, C07): SimFS holds an image of a shipped listing file (the
"other party" is the simulator that wrote it); the real t2listing opens it through the storage
seam and is driven by navigation / history / rewrite histories.
"""
import glob
import hashlib
import os
import random
import re

import numpy as np

from ..engine import Machine, Violation, _short_tb
from ..seeds import H
from ..simfs import SimCrash, SimBudgetExceeded, HarnessError, ROOT
from .. import fortran as F

REPO = os.environ.get('VERIF_REPO', '/repo')
_CAT = None
_IMG = {}
_TRUNC = {}
_FRESH = {}


def catalogue(tier):
    """The 37 shipped listings (relative paths); the > 900 kB one only in the thorough tier."""
    global _CAT
    if _CAT is None:
        base = os.path.join(REPO, 'tests', 'listing')
        fs = sorted(glob.glob(os.path.join(base, '*', '*', '*')))
        _CAT = [os.path.relpath(f, base) for f in fs
                if os.path.isfile(f) and not f.endswith('.npy') and not f.endswith('~')]
    if tier == 'thorough':
        return _CAT
    return [f for f in _CAT if os.path.getsize(os.path.join(REPO, 'tests', 'listing', f)) < 900000]


def image(rel):
    if rel not in _IMG:
        _IMG[rel] = open(os.path.join(REPO, 'tests', 'listing', rel), 'rb').read()
    return _IMG[rel]


def sha(data):
    return hashlib.sha256(data).hexdigest()[:16]


def result_set_lines(data):
    """Independent scan: byte offsets of the lines announcing a result set."""
    out = []
    pos = 0
    for line in data.split(b'\n'):
        if b'output data after' in line.lower():
            out.append(pos)
        pos += len(line) + 1
    return out


def line_start_before(data, pos, nlines):
    """Offset of the start of the line `nlines` lines before the line starting at pos."""
    p = pos
    for _ in range(nlines):
        q = data.rfind(b'\n', 0, max(p - 1, 0))
        p = q + 1 if q >= 0 else 0
    return p


class ListingBase(Machine):

    def __init__(self, ctx):
        Machine.__init__(self, ctx)
        import t2listing
        self.tl = t2listing
        self.lst = None
        self.rel = None
        self.data = None
        self.skip = ()
        self.tier = ctx.knobs.get('tier')

    # ---------------------------------------------------------------- plumbing
    def budget(self, data, nsets):
        return 20 * (data.count(b'\n') + 1) * (nsets + 1) + 10000

    def guarded(self, fn, what, budget=None):
        fs = self.ctx.fs
        fs.begin_op(budget if budget is not None else self.op_budget)
        try:
            return fn()
        except SimBudgetExceeded as e:
            raise Violation('LIVE', '%s did not finish within its I/O step budget (%s)' % (what, e),
                            key=self.live_key(what))
        except (Violation, HarnessError, SimCrash):
            raise
        except Exception as e:
            raise Violation('EXC', '%s raised %s' % (what, _short_tb(e)), key=self.exc_key(what, e))

    def live_key(self, what):
        return '-'

    def exc_key(self, what, e):
        return '-'

    def open_image(self, rel, data, skip):
        fs = self.ctx.fs
        fs.put(rel, data)
        self.op_budget = self.budget(data, 40)
        lst = self.guarded(lambda: self.tl.t2listing(ROOT + rel, skip_tables=list(skip)),
                           'opening %s skip=%r' % (rel, list(skip)))
        self.op_budget = self.budget(data, lst.num_times)
        return lst

    @staticmethod
    def snap(lst):
        tables = {}
        for name in lst._tablenames:
            t = lst._table[name]
            tables[name] = (tuple(t.row_name), t._data.copy())
        return (lst.index, float(lst.time), int(lst.step), tables)

    def fresh_at(self, rel, data, skip, i):
        """Snapshot of a freshly opened reader positioned directly at index i (cached per image:
        a pure function of the image bytes and the skip set)."""
        key = (rel, sha(data), tuple(skip), i)
        if key not in _FRESH:
            fs = self.ctx.fs
            fs.put(rel, data)
            fs.begin_op(None)
            try:
                lst = self.tl.t2listing(ROOT + rel, skip_tables=list(skip))
                if i != 0:
                    lst.index = i
                _FRESH[key] = self.snap(lst)
                lst.close()
            except (SimBudgetExceeded, SimCrash, HarnessError):
                raise
            except Exception as e:
                raise Violation('EXC', 'fresh reader of %s positioned at index %d raised %s'
                                % (rel, i, _short_tb(e)))
        return _FRESH[key]

    def truncated(self, rel, keep):
        """Image cut at the start of result set keep+1 ("the writer stopped there"), or None if
        the independent scan cannot produce an image that reports exactly `keep` result sets."""
        key = (rel, keep)
        if key in _TRUNC:
            return _TRUNC[key]
        data = image(rel)
        res = None
        marks = result_set_lines(data)
        fs = self.ctx.fs
        full = self.fresh_at(rel, data, (), 0)
        # number of full result sets of the whole image
        fs.put(rel, data)
        fs.begin_op(None)
        lst = self.tl.t2listing(ROOT + rel)
        nfull, fulltimes = lst.num_fulltimes, list(lst.fulltimes)
        lst.close()
        if 1 <= keep < nfull:
            for m in marks:
                for back in (2, 1, 3, 0, 4):
                    cut = line_start_before(data, m, back)
                    cand = data[:cut]
                    fs.put(rel, cand)
                    fs.begin_op(self.budget(cand, 40))
                    try:
                        l2 = self.tl.t2listing(ROOT + rel)
                        ok = l2.num_fulltimes == keep and list(l2.fulltimes) == fulltimes[:keep]
                        if ok:
                            l2.last()
                        l2.close()
                    except (SimBudgetExceeded, Exception):
                        ok = False
                    if ok:
                        res = cand
                        break
                if res is not None:
                    break
        _TRUNC[key] = res
        return res

    def compare_snap(self, want, got, what, check='N1'):
        if (want[0], want[1], want[2]) != (got[0], got[1], got[2]):
            raise Violation(check + '.pos', '%s: (index, time, step) = %r, a fresh reader positioned '
                            'there shows %r' % (what, got[:3], want[:3]))
        if list(want[3]) != list(got[3]):
            raise Violation(check + '.tables', '%s: tables %r, fresh reader has %r'
                            % (what, list(got[3]), list(want[3])))
        for name in want[3]:
            wr, wd = want[3][name]
            gr, gd = got[3][name]
            if wr != gr:
                raise Violation(check + '.rows', '%s: table %s row names differ from a fresh '
                                'reader' % (what, name))
            if wd.shape != gd.shape or not np.array_equal(wd, gd, equal_nan=True):
                bad = np.argwhere(~((wd == gd) | (np.isnan(wd) & np.isnan(gd))))
                r, c = bad[0]
                raise Violation(check + '.data', '%s: table %s row %r column %d holds %r, a fresh '
                                'reader positioned at index %d holds %r (%d cells differ)'
                                % (what, name, wr[r], c, gd[r, c], want[0], wd[r, c], len(bad)))


def gen_selection(rng, n=None):
    """Abstract history selection: list of [table choice, row choice, row mode, column choice]."""
    k = rng.choice((1, 1, 2, 2, 3, 5)) if n is None else n
    return [[rng.randrange(1000), rng.randrange(10 ** 6), rng.randrange(8), rng.randrange(1000)]
            for _ in range(k)]


SPEC = {'element': 'e', 'connection': 'c', 'generation': 'g', 'primary': 'p',
        'element1': 'e1', 'element2': 'e2'}


def resolve_selection(lst, sel, rng):
    """Resolve an abstract selection against the reader's tables.  Returns the list of
    (spec, key, column) given to history() and, per item, (table name, row index, column index,
    sign) for the oracle."""
    names = [n for n in lst._tablenames]
    items, oracle = [], []
    for tc, rc, mode, cc in sel:
        tname = names[tc % len(names)]
        t = lst._table[tname]
        nrows = t.num_rows
        if nrows == 0:
            continue
        if mode % 8 == 0:
            r = 0
        elif mode % 8 == 1:
            r = nrows - 1
        else:
            r = rc % nrows
        col = t.column_name[cc % t.num_columns]
        ci = t._col[col]
        sign = 1.0
        if mode % 8 in (2, 3):
            key = r                                    # by integer index
        elif mode % 8 == 4 and t.num_keys > 1 and t.allow_reverse_keys and \
                t.row_name[r][::-1] not in t._row:
            key = t.row_name[r][::-1]                  # reversed connection name
            sign = -1.0
        else:
            key = t.row_name[r]
            r = t._row[key]                            # duplicate keys: the lookup's row
        items.append((SPEC[tname].upper() if mode % 2 and len(SPEC[tname]) == 1 else SPEC[tname],
                      key, col))
        oracle.append((tname, r, ci, sign))
    return items, oracle


class NavMachine(ListingBase):
    """C07 — what a listing shows does not depend on how you navigated there."""
    PROP = 'C07'
    OPS = ('FIRST', 'LAST', 'NEXT', 'PREV', 'INDEX', 'TIME', 'STEP', 'HISTORY', 'OPEN')

    @classmethod
    def knobs(cls, rng, tier):
        k = {'tier': tier}
        w = {op: (rng.random() if rng.random() < 0.85 else 0.0) for op in cls.OPS}
        w['OPEN'] = 0.03
        w['HISTORY'] *= 0.5
        k['weights'] = w
        k['nops'] = rng.choice((1, 2, 3, 4, 4, 6, 10, 30))
        k['multi'] = rng.random() < 0.8       # prefer listings with >= 2 result sets
        return k

    @classmethod
    def generate(cls, rng, knobs):
        R = rng.randrange
        def opn():
            return ['OPEN', [R(10 ** 6), R(10 ** 6), R(16)], None]
        ops = [opn()]
        kinds = [o for o in cls.OPS if knobs['weights'][o] > 0]
        wts = [knobs['weights'][o] for o in kinds]
        for _ in range(knobs['nops']):
            kd = rng.choices(kinds, wts)[0]
            if kd == 'OPEN':
                ops.append(opn())
            elif kd == 'HISTORY':
                ops.append([kd, [R(10 ** 6), R(2)] + sum(gen_selection(rng), []), None])
            else:
                ops.append([kd, [R(10 ** 6), R(8)], None])
        return ops

    def apply(self, op):
        kind, ch = op[0], list(op[1]) + [0] * 4
        ctx = self.ctx
        if kind == 'OPEN':
            self.op_OPEN(ch)
            return
        if self.lst is None:
            ctx.stats['skip_noopen'] += 1
            return
        lst = self.lst
        n = lst.num_fulltimes
        before = lst.index
        what = kind
        expect = None
        if kind == 'FIRST':
            self.guarded(lst.first, 'first()')
            expect = 0
        elif kind == 'LAST':
            self.guarded(lst.last, 'last()')
            expect = n - 1
        elif kind == 'NEXT':
            moved = self.guarded(lst.next, 'next()')
            expect = min(before + 1, n - 1)
            if bool(moved) != (before < n - 1):
                raise Violation('N2', 'next() at index %d of %d returned %r' % (before, n, moved))
        elif kind == 'PREV':
            moved = self.guarded(lst.prev, 'prev()')
            expect = max(before - 1, 0)
            if bool(moved) != (before > 0):
                raise Violation('N2', 'prev() at index %d of %d returned %r' % (before, n, moved))
        elif kind == 'INDEX':
            i = ch[0] % (2 * n) - n                      # -n .. n-1
            what = 'index = %d' % i
            def seti():
                lst.index = i
            self.guarded(seti, what)
            expect = i % n
        elif kind in ('TIME', 'STEP'):
            arr = lst.fulltimes if kind == 'TIME' else lst.fullsteps
            j = ch[0] % n
            mode = ch[1] % 5
            if mode == 0 or n == 1 and mode in (1, 2):
                v = arr[j]
                cands = [k_ for k_ in range(n) if arr[k_] == v]
            elif mode in (1, 2) and j < n - 1:
                fr = 0.3 if mode == 1 else 0.7
                v = arr[j] + fr * (arr[j + 1] - arr[j])
                if kind == 'STEP':
                    v = int(round(v))
                d = np.abs(arr - v)
                cands = [k_ for k_ in range(n) if d[k_] == d.min()]
            elif mode == 3:
                v = arr[0] - (1 if kind == 'STEP' else max(1.0, abs(arr[0]) * 0.5))
                cands = [0]
            else:
                v = arr[-1] + (1 if kind == 'STEP' else max(1.0, abs(arr[-1]) * 0.5))
                cands = [n - 1]
            what = '%s = %r' % (kind.lower(), v)
            def setv():
                if kind == 'TIME':
                    lst.time = v
                else:
                    lst.step = v
            self.guarded(setv, what)
            if lst.index not in cands:
                raise Violation('N3', '%s selected index %d, nearest result sets are %r'
                                % (what, lst.index, cands))
            expect = lst.index
        elif kind == 'HISTORY':
            rng = random.Random(H('navhist', ch[0]))
            sel = [ch[2 + 4 * k: 6 + 4 * k] for k in range((len(op[1]) - 2) // 4)]
            items, _ = resolve_selection(lst, sel, rng)
            if not items:
                ctx.stats['skip_HISTORY'] += 1
                return
            arg = items[0] if len(items) == 1 and ch[1] % 2 else items
            what = 'history(%r)' % (arg,)
            self.guarded(lambda: lst.history(arg), what)
            expect = before
        ctx.stats['op_' + kind] += 1
        ctx.state_changes += 1
        if not 0 <= lst.index < n:
            raise Violation('N2', '%s left index %d outside 0..%d' % (what, lst.index, n - 1))
        if expect is not None and lst.index != expect:
            raise Violation('N1.pos', '%s from index %d left index %d, expected %d'
                            % (what, before, lst.index, expect))
        got = self.snap(lst)
        want = self.fresh_at(self.rel, self.data, self.skip, lst.index)
        self.compare_snap(want, got, 'after %s (from index %d)' % (what, before))
        ctx.fp.append((kind, self.rel, min(lst.index, 3), int(before == lst.index)))
        ctx.digest.add(kind, what, got[0], got[1], got[2],
                       [(nm, hashlib.md5(d.tobytes()).hexdigest()) for nm, (r, d) in
                        sorted(got[3].items())])

    def op_OPEN(self, ch):
        ctx = self.ctx
        cat = catalogue(self.tier)
        if ctx.knobs.get('multi'):
            multi = [f for f in cat if self.nsets(f) >= 2]
            cat = multi or cat
        rel = cat[ch[0] % len(cat)]
        data = image(rel)
        n = self.nsets(rel)
        if n >= 2 and ch[2] % 4 == 0:
            keep = 1 + ch[1] % (n - 1)
            t = self.truncated(rel, keep)
            if t is not None:
                data = t
                ctx.probes['truncated_image'] += 1
            else:
                ctx.probes['truncation_discarded'] += 1
        if self.lst is not None:
            try:
                self.lst.close()
            except Exception:
                pass
        self.rel, self.data, self.skip = rel, data, ()
        self.lst = self.open_image(rel, data, ())
        ctx.digest.add('OPEN', rel, sha(data))
        ctx.fp.append(('OPEN', rel, len(data) != len(image(rel))))

    _NSETS = {}

    def nsets(self, rel):
        if rel not in self._NSETS:
            self._NSETS[rel] = len(result_set_lines(image(rel)))
        return self._NSETS[rel]


class HistoryMachine(ListingBase):
    """C06 — history() equals stepping through the listing, terminates, leaves the cursor."""
    PROP = 'C06'

    @classmethod
    def knobs(cls, rng, tier):
        k = {'tier': tier}
        k['nops'] = rng.choice((1, 1, 2, 3, 5))
        k['plus_bias'] = rng.random() < 0.25        # the four TOUGH+ files always well covered
        return k

    @classmethod
    def generate(cls, rng, knobs):
        R = rng.randrange
        ops = [['OPEN', [R(10 ** 6), R(64)], None]]
        for _ in range(knobs['nops']):
            r = rng.random()
            if r < 0.15:
                ops.append(['OPEN', [R(10 ** 6), R(64)], None])
            elif r < 0.4:
                ops.append(['GOTO', [R(10 ** 6)], None])
            else:
                ops.append(['HISTORY', [R(10 ** 6), R(4)] + sum(gen_selection(rng), []), None])
        return ops

    def apply(self, op):
        kind, ch = op[0], list(op[1]) + [0] * 4
        ctx = self.ctx
        if kind == 'OPEN':
            cat = catalogue(self.tier)
            if ctx.knobs.get('plus_bias'):
                cat = [f for f in cat if f.startswith('TOUGHplus')] or cat
            rel = cat[ch[0] % len(cat)]
            data = image(rel)
            if self.lst is not None:
                try:
                    self.lst.close()
                except Exception:
                    pass
            self.rel, self.data, self.skip = rel, data, ()
            self.lst = self.open_image(rel, data, ())
            ctx.digest.add('OPEN', rel)
            ctx.fp.append(('OPEN', rel))
            return
        if self.lst is None:
            ctx.stats['skip_noopen'] += 1
            return
        lst = self.lst
        n = lst.num_fulltimes
        if kind == 'GOTO':
            i = ch[0] % n
            def seti():
                lst.index = i
            self.guarded(seti, 'index = %d' % i)
            ctx.digest.add('GOTO', i)
            return
        rng = random.Random(H('hist', ch[0]))
        sel = [ch[2 + 4 * k: 6 + 4 * k] for k in range((len(op[1]) - 2) // 4)]
        items, oracle = resolve_selection(lst, sel, rng)
        if not items:
            ctx.stats['skip_HISTORY'] += 1
            return
        short = bool(ch[1] % 2)
        single = len(items) == 1 and ch[1] // 2 % 2
        arg = items[0] if single else items
        what = 'history(%r, short=%r) on %s from index %d' % (arg, short, self.rel, lst.index)
        before = self.snap(lst)
        tabs = tuple(o[0] for o in oracle)
        self._cur_tables = tabs
        res = self.guarded(lambda: lst.history(arg, short=short), what)
        ctx.stats['op_HISTORY'] += 1
        ctx.state_changes += 1
        # H4 cursor state unchanged
        after = self.snap(lst)
        self.compare_snap(before, after, what, check='H4')
        # H1 equals stepping
        if res is None:
            raise Violation('H1', '%s returned None for a valid selection' % what)
        if len(items) == 1:
            res = [res]
        if len(res) != len(items):
            raise Violation('H1', '%s returned %d series for %d items' % (what, len(res), len(items)))
        fulltimes = np.array(lst.fulltimes)
        for (times, vals), item, (tname, r, ci, sign) in zip(res, items, oracle):
            times, vals = np.asarray(times), np.asarray(vals)
            step_series = np.array([sign * self.fresh_at(self.rel, self.data, (), i)[3][tname][1][r, ci]
                                    for i in range(n)])
            if len(vals) == n:
                if not np.array_equal(vals, step_series, equal_nan=True):
                    k = int(np.argwhere(~((vals == step_series) |
                                          (np.isnan(vals) & np.isnan(step_series))))[0][0])
                    raise Violation('H1', '%s: item %r at result set %d gives %r, stepping there '
                                    'and reading the table gives %r' % (what, item, k, vals[k],
                                                                         step_series[k]),
                                    key=self.h1_key(tabs))
                if len(times) != n or not np.array_equal(times, fulltimes):
                    raise Violation('H1.times', '%s: item %r is paired with times %r...'
                                    % (what, item, list(times[:3])))
            else:
                # short output included: the sub-series at the full result times must agree
                alltimes = np.array(lst.times)
                if not short or len(vals) != len(alltimes) or len(times) != len(alltimes):
                    raise Violation('H1.len', '%s: item %r has %d values for %d result sets (%d '
                                    'with short output)' % (what, item, len(vals), n,
                                                            len(alltimes)))
                ctx.probes['history_with_short_output'] += 1
                if len(vals) == len(alltimes):
                    idx = [k for k, s in enumerate(lst._short) if not s]
                    sub = vals[idx]
                    if not np.array_equal(sub, step_series, equal_nan=True):
                        raise Violation('H2', '%s: item %r: the values at full result times %r '
                                        'differ from stepping %r' % (what, item, list(sub[:4]),
                                                                     list(step_series[:4])))
        ctx.fp.append(('H', self.rel, tuple(sorted(set(tabs))), tabs[0] if tabs else '', short,
                       before[0] > 0))
        ctx.digest.add('HISTORY', repr(arg), [hashlib.md5(np.asarray(v).tobytes()).hexdigest()
                                              for t, v in res])

    def h1_key(self, tabs):
        return '-'

    def live_key(self, what):
        return '-'
