"""The `listing` machine (C05, C06, C07): SimFS holds an image of a shipped listing file (the
"other party" is the simulator that wrote it); the real t2listing opens it through the storage
seam and is driven by navigation / history / rewrite histories.
"""
import glob
import hashlib
import os
import random
import re

import numpy as np

from ..engine import Machine, Violation, _short_tb
from ..seeds import H
from ..simfs import SimCrash, SimBudgetExceeded, HarnessError, ROOT
from .. import fortran as F

REPO = os.environ.get('VERIF_REPO', '/repo')
_CAT = None
_IMG = {}
_TRUNC = {}
_FRESH = {}


def catalogue(tier):
    """The 37 shipped listings (relative paths); the > 900 kB one only in the thorough tier."""
    global _CAT
    if _CAT is None:
        base = os.path.join(REPO, 'tests', 'listing')
        fs = sorted(glob.glob(os.path.join(base, '*', '*', '*')))
        _CAT = [os.path.relpath(f, base) for f in fs
                if os.path.isfile(f) and not f.endswith('.npy') and not f.endswith('~')]
    if tier == 'thorough':
        return _CAT
    return [f for f in _CAT if os.path.getsize(os.path.join(REPO, 'tests', 'listing', f)) < 900000]


BIG = 'TOUGH2/6/case6'       # 1.8 MB, EOS7c: its element table has an extra header line


def image(rel):
    if rel not in _IMG:
        _IMG[rel] = open(os.path.join(REPO, 'tests', 'listing', rel), 'rb').read()
    return _IMG[rel]


def sha(data):
    return hashlib.sha256(data).hexdigest()[:16]


def result_set_lines(data):
    """Independent scan: byte offsets of the lines announcing a result set."""
    out = []
    pos = 0
    lines = data.split(b'\n')
    offs = []
    for line in lines:
        offs.append(pos)
        pos += len(line) + 1
    for i, line in enumerate(lines):
        low = line.lower()
        if b'output data after' in low:
            out.append(offs[i])                       # TOUGH2 family, TOUGH+
        elif b'output after' in low and i >= 2 and lines[i - 2][1:6] == b'EEEEE':
            out.append(offs[i])                       # AUTOUGH2: element table opens a full set
    return out


def line_start_before(data, pos, nlines):
    """Offset of the start of the line `nlines` lines before the line starting at pos."""
    p = pos
    for _ in range(nlines):
        q = data.rfind(b'\n', 0, max(p - 1, 0))
        p = q + 1 if q >= 0 else 0
    return p


class ListingBase(Machine):

    def __init__(self, ctx):
        Machine.__init__(self, ctx)
        import t2listing
        self.tl = t2listing
        self.lst = None
        self.rel = None
        self.data = None
        self.skip = ()
        self.dirty = False
        self.tier = ctx.knobs.get('tier')

    # ---------------------------------------------------------------- plumbing
    def budget(self, data, nsets):
        return 20 * (data.count(b'\n') + 1) * (nsets + 1) + 10000

    def guarded(self, fn, what, budget=None):
        fs = self.ctx.fs
        fs.begin_op(budget if budget is not None else self.op_budget)
        try:
            return fn()
        except SimBudgetExceeded as e:
            raise Violation('LIVE', '%s did not finish within its I/O step budget (%s)' % (what, e),
                            key=self.live_key(what))
        except (Violation, HarnessError, SimCrash):
            raise
        except Exception as e:
            raise Violation('EXC', '%s raised %s' % (what, _short_tb(e)), key=self.exc_key(what, e))

    def live_key(self, what):
        return '-'

    def exc_key(self, what, e):
        return '-'

    def faulted(self, fn, what, at):
        """Runs a navigation action with a transient read error (EIO) injected at the at-th
        read of the action.  Returns True if the fault fired and the action failed with it (the
        reader is then half-updated and the caller must position it again)."""
        fs = self.ctx.fs
        fs.begin_op(self.op_budget)
        fs.arm('EIO', at)
        nf = len(fs.fired)
        try:
            fn()
        except OSError as e:
            if len(fs.fired) > nf:
                self.ctx.stats['fault_fired_EIO'] += 1
                return True
            raise Violation('EXC', '%s raised %s' % (what, _short_tb(e)))
        except SimBudgetExceeded as e:
            raise Violation('LIVE', '%s did not finish within its I/O step budget (%s)' % (what, e))
        except (Violation, HarnessError, SimCrash):
            raise
        except Exception as e:
            if len(fs.fired) > nf:
                raise Violation('EXC-F', '%s raised a non-I/O error after an injected read error: '
                                '%s' % (what, _short_tb(e)))
            raise Violation('EXC', '%s raised %s' % (what, _short_tb(e)))
        finally:
            if fs.disarm() is not None:
                self.ctx.stats['fault_armed_not_fired'] += 1
        return False

    @staticmethod
    def fs_name(rel, data):
        """One SimFS name per image version (a live reader must not see another version's
        bytes); the base name is kept because TOUGH2-MP is recognised by it."""
        return sha(data) + '/' + rel

    def open_image(self, rel, data, skip):
        fs = self.ctx.fs
        name = self.fs_name(rel, data)
        fs.put(name, data)
        self.op_budget = self.budget(data, 40)
        lst = self.guarded(lambda: self.tl.t2listing(ROOT + name, skip_tables=list(skip)),
                           'opening %s skip=%r' % (rel, list(skip)))
        self.op_budget = self.budget(data, lst.num_times)
        return lst

    ACCESS = 'ACCESS'

    def snap(self, lst):
        tables = {}
        for name in lst._tablenames:
            t = lst._table[name]
            tables[name] = (tuple(t.row_name), t._data.copy())
            self.check_access(lst, name, t)
        return (lst.index, float(lst.time), int(lst.step), tables)

    def check_access(self, lst, name, t):
        """What a caller reaches through the documented ways - the table as an attribute of the
        listing, a row by its name, a row by its number - is what the table holds now."""
        a = getattr(lst, name, None)
        if a is not None and a is not t and not np.array_equal(a._data, t._data, equal_nan=True):
            raise Violation(self.ACCESS, 'the table reached as listing.%s at index %r does not '
                            'hold the numbers of the %s table the reader has just read'
                            % (name, lst.index, name))
        rows = t.row_name
        n = len(rows)
        for k in sorted(set((0, n // 2, n - 1))) if n else ():
            key = rows[k]
            if key in t.column_name:
                continue
            bynum = t[k]
            vals = [bynum[c] for c in t.column_name]
            if bynum['key'] != key or not np.array_equal(np.array(vals, dtype=float), t._data[k, :],
                                                         equal_nan=True):
                raise Violation(self.ACCESS, 'table %s at index %r: row number %d does not give '
                                'the row the table holds there' % (name, lst.index, k))
            if list(rows).count(key) != 1:
                continue                    # a row name printed twice (TOUGH2-MP)
            byname = t[key]
            vals = [byname[c] for c in t.column_name]
            if not np.array_equal(np.array(vals, dtype=float), t._data[k, :], equal_nan=True):
                raise Violation(self.ACCESS, 'table %s at index %r: row %r looked up by name does '
                                'not give the numbers the table holds' % (name, lst.index, key))
        self.ctx.probes['table_access_checked'] += 1

    def fresh_at(self, rel, data, skip, i):
        """Snapshot of a freshly opened reader positioned directly at index i (cached per image:
        a pure function of the image bytes and the skip set)."""
        key = (rel, sha(data), tuple(skip), i)
        if key not in _FRESH:
            fs = self.ctx.fs
            name = self.fs_name(rel, data)
            fs.put(name, data)
            fs.begin_op(None)
            try:
                lst = self.tl.t2listing(ROOT + name, skip_tables=list(skip))
                if i != 0:
                    lst.index = i
                _FRESH[key] = self.snap(lst)
                lst.close()
            except (SimBudgetExceeded, SimCrash, HarnessError):
                raise
            except Exception as e:
                raise Violation('EXC', 'fresh reader of %s positioned at index %d raised %s'
                                % (rel, i, _short_tb(e)))
        return _FRESH[key]

    def truncated(self, rel, keep):
        """Image cut at the start of result set keep+1 ("the writer stopped there"), or None if
        the independent scan cannot produce an image that reports exactly `keep` result sets."""
        key = (rel, keep)
        if key in _TRUNC:
            return _TRUNC[key]
        data = image(rel)
        res = None
        marks = result_set_lines(data)
        fs = self.ctx.fs
        full = self.fresh_at(rel, data, (), 0)
        # number of full result sets of the whole image
        fs.put(self.fs_name(rel, data), data)
        fs.begin_op(None)
        lst = self.tl.t2listing(ROOT + self.fs_name(rel, data))
        nfull, fulltimes = lst.num_fulltimes, list(lst.fulltimes)
        lst.close()
        if 1 <= keep < nfull:
            for m in marks:
                for back in (2, 1, 3, 0, 4):
                    cut = line_start_before(data, m, back)
                    cand = data[:cut]
                    fs.put(self.fs_name(rel, cand), cand)
                    fs.begin_op(self.budget(cand, 40))
                    try:
                        l2 = self.tl.t2listing(ROOT + self.fs_name(rel, cand))
                        ok = l2.num_fulltimes == keep and list(l2.fulltimes) == fulltimes[:keep]
                        if ok:
                            l2.last()
                        l2.close()
                    except (SimBudgetExceeded, Exception):
                        ok = False
                    if ok:
                        res = cand
                        break
                if res is not None:
                    break
        _TRUNC[key] = res
        return res

    def choose_rewrites(self, base, lst, rng, k):
        """Rewrites up to k printed numbers of image `base` by other numbers of the same printed
        form.  Returns (new image, cells) with cells = (table, index, row, column | ('short',
        printed non-zero numbers), new value, old text, new text, kind)."""
        ctx = self.ctx
        n = lst.num_fulltimes
        cells = []
        data = bytearray(base)
        used_lines = set()
        varying = self.varying_rows(base, lst)
        for _ in range(k):
            i = rng.randrange(n)
            r = rng.random()
            pick_var = None
            # the first row of a table at the first result set is what the reader works the
            # layout of the table out from: its first numbers are rewritten more often
            first_row = r >= 0.8
            if first_row:
                i = 0
            if varying and r < 0.35:
                # a row that prints more numbers at one result set than at another: rewrite one
                # of the numbers that are blank elsewhere, where the row is longest
                keys = sorted(varying)
                tr = keys[rng.randrange(len(keys))]
                lens = varying[tr]
                i = max(sorted(lens), key=lambda q: lens[q])
                pick_var = (tr, min(lens.values()))
            if i:
                self.guarded(lambda: setattr(lst, 'index', i), 'index = %d' % i)
            else:
                self.guarded(lst.first, 'first()')
            located = [L for L in locate_rows(bytes(base), lst, i)
                       if L.offset not in used_lines and
                       (L.full or lst._table[L.table].column_name[0] != 'I')]
            # rows with blank cells ("short" rows, mostly generation tables) are rewritten too
            short_rows = [L for L in located if not L.full]
            if pick_var is not None:
                alt = [L for L in located if (L.table, L.row) == pick_var[0]]
                if alt:
                    located = alt
                    ctx.probes['rewrite_row_of_varying_length'] += 1
                else:
                    pick_var = None
            elif short_rows and r < 0.55:
                located = short_rows
            if first_row:
                located = [L for L in located if L.row == 0] or located
            if not located:
                continue
            L = located[rng.randrange(len(located))]
            t = lst._table[L.table]
            j = rng.randrange(len(L.tail))
            if first_row and L.row == 0:
                j = rng.randrange(min(3, len(L.tail)))
                self.ctx.probes['rewrite_in_first_row_of_table'] += 1
            if pick_var is not None and len(L.tail) > pick_var[1]:
                j = pick_var[1] + rng.randrange(len(L.tail) - pick_var[1])
            col, tok = L.tail[j]
            prev_end = (L.tail[j - 1][0] + len(L.tail[j - 1][1])) if j else \
                len(L.line[:col].rstrip())
            vs = variants(tok, rng, col - prev_end)
            if pick_var is not None:
                vs = [v for v in vs if F.fread(v[1]) != 0.0] or vs
            if not vs:
                continue
            signv = [v for v in vs if v[0] in ('negative', 'positive')]
            if signv and rng.random() < 0.3:
                vs = signv        # a sign in the blank before the number moves the field start
            kd, new, sh = vs[rng.randrange(len(vs))]
            a = L.offset + col - sh
            if bytes(data[a:a + len(new)]).decode('latin-1') != (' ' * sh + tok):
                raise HarnessError('rewrite target mismatch')
            data[a:a + len(new)] = new.encode('latin-1')
            used_lines.add(L.offset)
            cj = j + (1 if t.column_name[0] == 'I' else 0)
            if not L.full:
                # which column the j-th printed number belongs to is not known independently:
                # the oracle for this row is "its non-zero cells are the printed non-zero numbers"
                printed = [F.fread(new) if k_ == j else F.fread(tk) for k_, (_, tk) in
                           enumerate(L.tail)]
                cj = ('short', tuple(v for v in printed if v != 0.0))
            cells.append((L.table, i, L.row, cj, F.fread(new), tok, new, kd))
            ctx.probes['rewrite_' + kd] += 1
        return bytes(data), cells

    def varying_rows(self, base, lst):
        """{(table, row): {index: count of printed numbers}} for rows whose count of printed
        numbers differs between result sets (cells blank at one time, printed at another)."""
        key = ('varying-rows', sha(base))
        if key not in _FRESH:
            cnt = {}
            for i in range(lst.num_fulltimes):
                if i:
                    lst.index = i
                else:
                    lst.first()
                for L in locate_rows(bytes(base), lst, i):
                    if lst._table[L.table].column_name[0] != 'I':
                        cnt.setdefault((L.table, L.row), {})[i] = len(L.tail)
            _FRESH[key] = dict((k, v) for k, v in cnt.items() if len(set(v.values())) > 1)
        return _FRESH[key]

    def other_reader(self, c):
        """Another part of the same program opens (and keeps) a listing from a different simulator
        and moves about in it: readers must not share state."""
        cat = catalogue(self.tier)
        mine = (self.rel or '').split('/')[0]
        same_file = c % 3 == 2 and self.rel is not None and getattr(self, 'data', None) is not None
        if same_file:
            cand = [self.rel]            # the very file the main reader is on
        elif c % 3 == 1 or (c % 3 == 0 and self.ctx.knobs.get('short_bias')):
            # same simulator family, another file (same column names, another layout)
            cand = [f for f in cat if f.split('/')[0] == mine and f != self.rel and
                    len(image(f)) < 450000]
        else:
            cand = [f for f in cat if f.split('/')[0] != mine and len(image(f)) < 450000]
        cand = cand or cat
        rel = cand[(c // 3) % len(cand)]
        fs = self.ctx.fs
        fs.begin_op(None)
        data = (getattr(self, 'live_data', None) or self.data) if same_file else image(rel)
        name = self.fs_name(rel, data)
        fs.put(name, data)
        try:
            o = self.tl.t2listing(ROOT + name)
            if o.num_fulltimes > 1:
                o.last()
                o.first()
                if same_file:
                    o.index = (1 + c // 3) % o.num_fulltimes     # and is left somewhere else
        except (SimBudgetExceeded, SimCrash, HarnessError):
            raise
        except Exception as e:
            raise Violation('EXC', 'a second reader on %s raised %s' % (rel, _short_tb(e)))
        self.others = getattr(self, 'others', [])[-2:] + [o]
        self.ctx.probes['second_reader_of_the_same_file' if same_file else
                        'second_reader_of_another_simulator'] += 1
        self.ctx.digest.add('OTHER', rel)

    def compare_snap(self, want, got, what, check='N1'):
        if (want[0], want[1], want[2]) != (got[0], got[1], got[2]):
            raise Violation(check + '.pos', '%s: (index, time, step) = %r, a fresh reader positioned '
                            'there shows %r' % (what, got[:3], want[:3]))
        if list(want[3]) != list(got[3]):
            raise Violation(check + '.tables', '%s: tables %r, fresh reader has %r'
                            % (what, list(got[3]), list(want[3])))
        for name in want[3]:
            wr, wd = want[3][name]
            gr, gd = got[3][name]
            if wr != gr:
                raise Violation(check + '.rows', '%s: table %s row names differ from a fresh '
                                'reader' % (what, name))
            if wd.shape != gd.shape or not np.array_equal(wd, gd, equal_nan=True):
                bad = np.argwhere(~((wd == gd) | (np.isnan(wd) & np.isnan(gd))))
                r, c = bad[0]
                raise Violation(check + '.data', '%s: table %s row %r column %d holds %r, a fresh '
                                'reader positioned at index %d holds %r (%d cells differ)'
                                % (what, name, wr[r], c, gd[r, c], want[0], wd[r, c], len(bad)))


def gen_selection(rng, n=None):
    """Abstract history selection: list of [table choice, row choice, row mode, column choice]."""
    k = rng.choice((1, 1, 2, 2, 3, 5)) if n is None else n
    return [[rng.randrange(1000), rng.randrange(10 ** 6), rng.randrange(8), rng.randrange(1000)]
            for _ in range(k)]


SPEC = {'element': 'e', 'connection': 'c', 'generation': 'g', 'primary': 'p',
        'element1': 'e1', 'element2': 'e2'}


def resolve_selection(lst, sel, rng):
    """Resolve an abstract selection against the reader's tables.  Returns the list of
    (spec, key, column) given to history() and, per item, (table name, row index, column index,
    sign) for the oracle."""
    names = [n for n in lst._tablenames]
    items, oracle = [], []
    for tc, rc, mode, cc in sel:
        tname = names[tc % len(names)]
        t = lst._table[tname]
        nrows = t.num_rows
        if nrows == 0:
            continue
        if mode % 8 == 0:
            r = 0
        elif mode % 8 == 1:
            r = nrows - 1
        else:
            r = rc % nrows
        sk = SPEC[tname][0].upper() + 'SHORT'
        short_rows = sorted(getattr(lst, 'short_indices', {}).get(sk, {}))
        if short_rows and mode % 8 in (5, 6, 7) and not t.row_line:
            r = short_rows[rc % len(short_rows)] % nrows      # a row that short output prints
        if mode % 8 in (6, 7) and rc % 3 == 0 and len(set(t.row_name)) < nrows:
            # a row whose name is printed twice in the table (the name means the later one)
            seen, dup = set(), []
            for k_, nm_ in enumerate(t.row_name):
                if nm_ in seen:
                    dup.append(k_)
                seen.add(nm_)
            r = dup[(rc // 3) % len(dup)]
        col = t.column_name[cc % t.num_columns]
        ci = t._col[col]
        sign = 1.0
        if mode % 8 in (2, 3):
            key = r                                    # by integer index
        elif mode % 8 == 4 and t.num_keys > 1 and t.allow_reverse_keys and \
                t.row_name[r][::-1] not in t._row:
            key = t.row_name[r][::-1]                  # reversed connection name
            sign = -1.0
        else:
            key = t.row_name[r]
            r = t._row[key]                            # duplicate keys: the lookup's row
        items.append((SPEC[tname].upper() if mode % 2 and len(SPEC[tname]) == 1 else SPEC[tname],
                      key, col))
        oracle.append((tname, r, ci, sign))
    return items, oracle


class NavMachine(ListingBase):
    """C07 — what a listing shows does not depend on how you navigated there."""
    PROP = 'C07'
    ACCESS = 'N1.access'
    OPS = ('FIRST', 'LAST', 'NEXT', 'PREV', 'INDEX', 'TIME', 'STEP', 'HISTORY', 'OPEN', 'OTHER',
           'INDEX_BAD')

    @classmethod
    def knobs(cls, rng, tier):
        k = {'tier': tier}
        w = {op: (rng.random() if rng.random() < 0.85 else 0.0) for op in cls.OPS}
        w['OPEN'] = 0.03
        w['HISTORY'] *= 0.5
        w['OTHER'] *= 0.25
        w['INDEX_BAD'] *= 0.2
        k['weights'] = w
        k['nops'] = rng.choice((1, 2, 3, 4, 4, 6, 10, 30))
        k['multi'] = rng.random() < 0.8       # prefer listings with >= 2 result sets
        r = rng.random()
        k['fault_rate'] = 0.0 if r < 0.5 else (0.1 if r < 0.8 else 0.3)
        return k

    @classmethod
    def generate(cls, rng, knobs):
        R = rng.randrange
        def opn():
            return ['OPEN', [R(10 ** 6), R(10 ** 6), R(16)], None]
        ops = [opn()]
        kinds = [o for o in cls.OPS if knobs['weights'][o] > 0]
        wts = [knobs['weights'][o] for o in kinds]
        for _ in range(knobs['nops']):
            kd = rng.choices(kinds, wts)[0]
            if kd == 'OPEN':
                ops.append(opn())
            elif kd == 'HISTORY':
                ops.append([kd, [R(10 ** 6), R(2)] + sum(gen_selection(rng), []), None])
            else:
                ch = [R(10 ** 6), R(8)]
                if knobs.get('fault_rate') and rng.random() < knobs['fault_rate'] and \
                        kd in ('FIRST', 'LAST', 'NEXT', 'PREV', 'INDEX', 'TIME', 'STEP'):
                    # a transient read error inside the action, then the same request again
                    ops.append([kd, ch, ['EIO', R(400), 0]])
                    ops.append([kd, list(ch), None])
                else:
                    ops.append([kd, ch, None])
        return ops

    def apply(self, op):
        kind, ch = op[0], list(op[1]) + [0] * 4
        fault = op[2] if len(op) > 2 else None
        ctx = self.ctx
        if kind == 'OPEN':
            self.op_OPEN(ch)
            return
        if self.lst is None:
            ctx.stats['skip_noopen'] += 1
            return
        lst = self.lst
        if fault is not None:
            n_ = lst.num_fulltimes
            act = {'FIRST': lst.first, 'LAST': lst.last, 'NEXT': lst.next, 'PREV': lst.prev,
                   'INDEX': lambda: setattr(lst, 'index', ch[0] % (2 * n_) - n_),
                   'TIME': lambda: setattr(lst, 'time', float(lst.fulltimes[ch[0] % n_])),
                   'STEP': lambda: setattr(lst, 'step', int(lst.fullsteps[ch[0] % n_]))}[kind]
            if self.faulted(act, kind + ' under a read error', fault[1]):
                # The action failed part-way: the reader may report the new index with tables of
                # the old one.  The property quantifies over action sequences, not over I/O
                # errors, so nothing is asserted until an action that positions absolutely
                # (first, last, index=, time=, step=) has succeeded (weakest reading).
                ctx.probes['navigation_failed_with_read_error'] += 1
                ctx.digest.add('FAULT', kind)
                self.dirty = True
                return
            self.dirty = self.dirty and kind in ('NEXT', 'PREV')
            ctx.digest.add('FAULT-NOT-FIRED', kind)
            return
        if kind == 'OTHER':
            self.other_reader(ch[0])
            return
        if kind == 'INDEX_BAD' and not self.dirty:
            # an index one past either end is refused (IndexError): the reader stays where it was
            n_ = lst.num_fulltimes
            bad = n_ if ch[0] % 2 else -(n_ + 1)
            before_ = lst.index
            fs = ctx.fs
            fs.begin_op(self.op_budget)
            try:
                lst.index = bad
            except IndexError:
                ctx.probes['index_out_of_range_refused'] += 1
            except SimBudgetExceeded as e:
                raise Violation('LIVE', 'index = %d did not finish (%s)' % (bad, e))
            else:
                raise Violation('N2', 'index = %d of %d result sets was accepted' % (bad, n_))
            got = self.snap(lst)
            if lst.index != before_:
                raise Violation('N2', 'refused index = %d left the reader reporting index %r '
                                '(was %d)' % (bad, lst.index, before_))
            self.compare_snap(self.fresh_at(self.rel, self.data, self.skip, before_), got,
                              'after refused index = %d' % bad)
            ctx.digest.add('INDEX_BAD', bad)
            return
        if kind == 'INDEX_BAD':
            return
        if getattr(self, 'dirty', False):
            if kind in ('NEXT', 'PREV', 'HISTORY'):
                ctx.stats['skip_relative_after_failed_action'] += 1
                return
            self.dirty = False
        n = lst.num_fulltimes
        before = lst.index
        what = kind
        expect = None
        if kind == 'FIRST':
            self.guarded(lst.first, 'first()')
            expect = 0
        elif kind == 'LAST':
            self.guarded(lst.last, 'last()')
            expect = n - 1
        elif kind == 'NEXT':
            moved = self.guarded(lst.next, 'next()')
            expect = min(before + 1, n - 1)
            if bool(moved) != (before < n - 1):
                raise Violation('N2', 'next() at index %d of %d returned %r' % (before, n, moved))
        elif kind == 'PREV':
            moved = self.guarded(lst.prev, 'prev()')
            expect = max(before - 1, 0)
            if bool(moved) != (before > 0):
                raise Violation('N2', 'prev() at index %d of %d returned %r' % (before, n, moved))
        elif kind == 'INDEX':
            i = ch[0] % (2 * n) - n                      # -n .. n-1
            what = 'index = %d' % i
            def seti():
                lst.index = i
            self.guarded(seti, what)
            expect = i % n
        elif kind in ('TIME', 'STEP'):
            # (plain Python numbers: the oracle must not inherit the reader's array type)
            arr = np.array([float(x) for x in (lst.fulltimes if kind == 'TIME' else lst.fullsteps)])
            j = ch[0] % n
            mode = ch[1] % 5
            if mode == 0 or n == 1 and mode in (1, 2):
                v = arr[j]
                cands = [k_ for k_ in range(n) if arr[k_] == v]
            elif mode in (1, 2) and j < n - 1:
                fr = 0.3 if mode == 1 else 0.7
                v = arr[j] + fr * (arr[j + 1] - arr[j])
                if kind == 'STEP':
                    v = int(round(v))
                d = np.abs(arr - v)
                cands = [k_ for k_ in range(n) if d[k_] == d.min()]
            elif mode == 3:
                v = arr[0] - (1 if kind == 'STEP' else max(1.0, abs(arr[0]) * 0.5))
                cands = [0]
            else:
                v = arr[-1] + (1 if kind == 'STEP' else max(1.0, abs(arr[-1]) * 0.5))
                cands = [n - 1]
            what = '%s = %r' % (kind.lower(), v)
            def setv():
                if kind == 'TIME':
                    lst.time = v
                else:
                    lst.step = v
            self.guarded(setv, what)
            if lst.index not in cands:
                raise Violation('N3', '%s selected index %d, nearest result sets are %r'
                                % (what, lst.index, cands))
            expect = lst.index
        elif kind == 'HISTORY':
            rng = random.Random(H('navhist', ch[0]))
            sel = [ch[2 + 4 * k: 6 + 4 * k] for k in range((len(op[1]) - 2) // 4)]
            items, _ = resolve_selection(lst, sel, rng)
            if not items:
                ctx.stats['skip_HISTORY'] += 1
                return
            arg = items[0] if len(items) == 1 and ch[1] % 2 else items
            invalid = ch[0] % 5 == 0
            if invalid:
                # a selection with no valid item: documented to return None
                bad = [('e', 'zz9z9', items[0][2]), ('x', items[0][1], items[0][2]),
                       ('e7', items[0][1], items[0][2])][ch[0] // 5 % 3]
                arg = bad if ch[1] % 2 else [bad]
                ctx.probes['history_invalid_selection'] += 1
            what = 'history(%r)' % (arg,)
            res = self.guarded(lambda: lst.history(arg), what)
            if invalid and res is not None:
                raise Violation('N1.hist', '%s returned %r for a selection with no valid item'
                                % (what, type(res)))
            expect = before
        ctx.stats['op_' + kind] += 1
        ctx.state_changes += 1
        if not 0 <= lst.index < n:
            raise Violation('N2', '%s left index %d outside 0..%d' % (what, lst.index, n - 1))
        if expect is not None and lst.index != expect:
            raise Violation('N1.pos', '%s from index %d left index %d, expected %d'
                            % (what, before, lst.index, expect))
        got = self.snap(lst)
        want = self.fresh_at(self.rel, self.data, self.skip, lst.index)
        self.compare_snap(want, got, 'after %s (from index %d)' % (what, before))
        ctx.fp.append((kind, self.rel, min(lst.index, 3), int(before == lst.index)))
        ctx.digest.add(kind, what, got[0], got[1], got[2],
                       [(nm, hashlib.md5(d.tobytes()).hexdigest()) for nm, (r, d) in
                        sorted(got[3].items())])

    def op_OPEN(self, ch):
        ctx = self.ctx
        cat = catalogue(self.tier)
        if ctx.knobs.get('multi'):
            multi = [f for f in cat if self.nsets(f) >= 2]
            cat = multi or cat
        rel = cat[ch[0] % len(cat)]
        if self.tier != 'thorough' and ch[0] % 53 == 52:
            rel = BIG          # the quick tier sees the one big listing now and then
        data = image(rel)
        n = self.nsets(rel)
        if n >= 2 and ch[2] % 4 == 0:
            keep = 1 + ch[1] % (n - 1)
            t = self.truncated(rel, keep)
            if t is not None:
                data = t
                ctx.probes['truncated_image'] += 1
            else:
                ctx.probes['truncation_discarded'] += 1
        if self.lst is not None:
            try:
                self.lst.close()
            except Exception:
                pass
        if ch[2] % 4 == 1 and data is image(rel):
            # a value-perturbed copy: some printed numbers replaced by others of the same form
            tmp = self.open_image(rel, data, ())
            data, cells = self.choose_rewrites(data, tmp, random.Random(H('navrw', ch[1])),
                                               1 + ch[1] % 6)
            tmp.close()
            if cells:
                ctx.probes['rewritten_image'] += 1
        self.rel, self.data, self.skip = rel, data, ()
        self.lst = self.open_image(rel, data, ())
        ctx.digest.add('OPEN', rel, sha(data))
        ctx.fp.append(('OPEN', rel, len(data) != len(image(rel)), data is image(rel)))

    _NSETS = {}

    def nsets(self, rel):
        if rel not in self._NSETS:
            self._NSETS[rel] = len(result_set_lines(image(rel)))
        return self._NSETS[rel]

    # ---- deterministic sweep: every navigation sequence up to a bound (C07 quantifier)
    _LAYOUT = {}
    SWEEP_QUICK = 900

    @classmethod
    def nav_alphabet(cls, n):
        js = sorted(set([0, 1, max(n - 2, 0), n - 1])) if n > 4 else list(range(n))
        ops = [['FIRST', [0, 0]], ['LAST', [0, 0]], ['NEXT', [0, 0]], ['PREV', [0, 0]]]
        ops += [['INDEX', [n + j, 0]] for j in js] + [['INDEX', [n - 1 - j, 0]] for j in js]
        for kind in ('TIME', 'STEP'):
            ops += [[kind, [j, m]] for j in js for m in (0, 1, 2)]
            ops += [[kind, [0, 3]], [kind, [0, 4]]]
        ops.append(['HISTORY', [7, 0, 0, 0, 0, 0]])
        return ops

    @classmethod
    def sweep_layout(cls, tier):
        if tier not in cls._LAYOUT:
            segs = []
            cat = catalogue(tier)
            for ci, rel in enumerate(cat):
                n = len(result_set_lines(image(rel)))
                if n < 2:
                    continue
                a = len(cls.nav_alphabet(n))
                size = len(image(rel))
                maxlen = 3 if (n <= 3 and size < 120000) else 2
                for L in range(1, maxlen + 1):
                    segs.append((ci, n, L, a ** L))
            # every single action on every listing first, then pairs, then triples
            segs.sort(key=lambda sg: (sg[2], sg[0]))
            cls._LAYOUT[tier] = segs
        return cls._LAYOUT[tier]

    @classmethod
    def sweep_size(cls, tier):
        return sum(s[3] for s in cls.sweep_layout(tier))

    @classmethod
    def sweep_case(cls, i, tier):
        for ci, n, L, cnt in cls.sweep_layout(tier):
            if i < cnt:
                alpha = cls.nav_alphabet(n)
                ops = []
                for _ in range(L):
                    k, c = alpha[i % len(alpha)]
                    ops.append([k, list(c), None])
                    i //= len(alpha)
                return ({'tier': tier, 'multi': False, 'sweep': True},
                        [['OPEN', [ci, 0, 2], None]] + ops)
            i -= cnt
        raise IndexError(i)


class HistoryMachine(ListingBase):
    """C06 — history() equals stepping through the listing, terminates, leaves the cursor."""
    PROP = 'C06'
    ACCESS = 'H4.access'

    @classmethod
    def knobs(cls, rng, tier):
        k = {'tier': tier}
        k['nops'] = rng.choice((1, 1, 2, 3, 5))
        k['plus_bias'] = rng.random() < 0.25        # the four TOUGH+ files always well covered
        k['short_bias'] = (not k['plus_bias']) and rng.random() < 0.25   # AUTOUGH2 short output
        return k

    @classmethod
    def generate(cls, rng, knobs):
        R = rng.randrange
        ops = [['OPEN', [R(10 ** 6), R(64)], None]]
        for _ in range(knobs['nops']):
            r = rng.random()
            if r < 0.15:
                ops.append(['OPEN', [R(10 ** 6), R(64)], None])
            elif r < 0.22:
                ops.append(['REPLACE', [R(10 ** 6), 1 + R(6)], None])
            elif r < 0.28:
                ops.append(['OTHER', [R(10 ** 6)], None])
            elif r < 0.45:
                ops.append(['GOTO', [R(10 ** 6)], None])
            else:
                ops.append(['HISTORY', [R(10 ** 6), R(4)] + sum(gen_selection(rng), []), None])
        return ops

    def apply(self, op):
        kind, ch = op[0], list(op[1]) + [0] * 4
        ctx = self.ctx
        if kind == 'OPEN':
            cat = catalogue(self.tier)
            if ctx.knobs.get('plus_bias'):
                cat = [f for f in cat if f.startswith('TOUGHplus')] or cat
            elif ctx.knobs.get('short_bias'):
                cat = [f for f in cat if f in ('AUTOUGH2/3/case3.listing',
                                               'AUTOUGH2/5/case5.listing',
                                               'AUTOUGH2/6/case6.listing',
                                               'AUTOUGH2/7/case7.listing')] or cat
            rel = cat[ch[0] % len(cat)]
            if self.tier != 'thorough' and ch[0] % 29 == 28:
                rel = BIG          # the quick tier sees the one big listing now and then
            data = image(rel)
            if self.lst is not None:
                try:
                    self.lst.close()
                except Exception:
                    pass
            self.rel, self.data, self.skip = rel, data, ()
            self.lst = self.open_image(rel, data, ())
            ctx.digest.add('OPEN', rel)
            ctx.fp.append(('OPEN', rel))
            return
        if self.lst is None:
            ctx.stats['skip_noopen'] += 1
            return
        lst = self.lst
        n = lst.num_fulltimes
        if kind == 'GOTO':
            i = ch[0] % n
            def seti():
                lst.index = i
            self.guarded(seti, 'index = %d' % i)
            ctx.digest.add('GOTO', i)
            return
        if kind == 'OTHER':
            self.other_reader(ch[0])
            return
        if kind == 'REPLACE':
            # another run replaces the file under the same name (rename-over) while this reader
            # has it open: the open reader goes on showing the file it opened, consistently for
            # stepping and for history()
            tmp = self.open_image(self.rel, self.data, ())
            newdata, cells = self.choose_rewrites(self.data, tmp, random.Random(H('repl', ch[0])),
                                                  ch[1])
            tmp.close()
            if not cells:
                ctx.stats['skip_REPLACE'] += 1
                return
            ctx.fs.replace(self.fs_name(self.rel, self.data), newdata)
            ctx.probes['file_replaced_under_open_reader'] += 1
            ctx.digest.add('REPLACE', sha(newdata))
            return
        rng = random.Random(H('hist', ch[0]))
        sel = [ch[2 + 4 * k: 6 + 4 * k] for k in range((len(op[1]) - 2) // 4)]
        items, oracle = resolve_selection(lst, sel, rng)
        if not items:
            ctx.stats['skip_HISTORY'] += 1
            return
        short = bool(ch[1] % 2)
        single = len(items) == 1 and ch[1] // 2 % 2
        arg = items[0] if single else items
        what = 'history(%r, short=%r) on %s from index %d' % (arg, short, self.rel, lst.index)
        before = self.snap(lst)
        tabs = tuple(o[0] for o in oracle)
        self._cur_tables = tabs
        for o_ in getattr(self, 'others', [])[-1:]:
            # another reader in the same program is asked for the same selection first
            ctx.fs.begin_op(self.op_budget * 4)
            try:
                o_.history(arg, short=short)
                ctx.probes['same_selection_on_second_reader'] += 1
            except SimBudgetExceeded as e:
                raise Violation('LIVE', 'history(%r) on a second reader did not finish (%s)'
                                % (arg, e))
            except Exception:
                pass              # the selection need not be valid there
        if ch[0] % 7 == 6:
            # a first attempt is cut short by a transient read error; the caller goes back to
            # where it was and asks again
            at_index = lst.index
            if self.faulted(lambda: lst.history(arg, short=short), what + ' (first attempt)',
                            (ch[0] // 7) % 400):
                ctx.probes['history_interrupted_then_repeated'] += 1
                self.guarded(lambda: setattr(lst, 'index', at_index), 'index = %d after an '
                             'interrupted history()' % at_index)
                before = self.snap(lst)
        res = self.guarded(lambda: lst.history(arg, short=short), what)
        ctx.stats['op_HISTORY'] += 1
        ctx.state_changes += 1
        # H4 cursor state unchanged
        after = self.snap(lst)
        self.compare_snap(before, after, what, check='H4')
        # H1 equals stepping
        if res is None:
            raise Violation('H1', '%s returned None for a valid selection' % what)
        if len(items) == 1:
            res = [res]
        if len(res) != len(items):
            raise Violation('H1', '%s returned %d series for %d items' % (what, len(res), len(items)))
        fulltimes = np.array(lst.fulltimes)
        for (times, vals), item, (tname, r, ci, sign) in zip(res, items, oracle):
            times, vals = np.asarray(times), np.asarray(vals)
            step_series = np.array([sign * self.fresh_at(self.rel, self.data, (), i)[3][tname][1][r, ci]
                                    for i in range(n)])
            if short and any(lst._short) and not lst._table[tname].row_line:
                # how many result sets print this row: the full ones plus every short-output set
                # whose short table carries a row with this key (independent scan)
                poss = list(lst._pos)
                nshort = 0
                for k_, is_short in enumerate(lst._short):
                    if is_short:
                        span = (poss[k_], poss[k_ + 1] if k_ + 1 < len(poss) else len(self.data))
                        rn = list(lst._table[tname].row_name)
                        # (a name printed twice in the full table means its later row - that is
                        # the row a short table's line of that name belongs to; the earlier row
                        # of the same name, reachable by number only, is not asked about)
                        last = len(rn) - 1 - rn[::-1].index(rn[r]) == r
                        if any(L.table == tname and (L.row == r or (last and rn[L.row] == rn[r]))
                               for L in locate_rows(self.data, lst, None, span=span,
                                                    allow_dups=True)):
                            nshort += 1
                if nshort and len(vals) == n and sum(lst._short) == nshort:
                    raise Violation('H2.len', '%s: item %r has %d values, but the row is also '
                                    'printed in all %d short-output result sets'
                                    % (what, item, len(vals), nshort))
            if len(vals) == n:
                if not np.array_equal(vals, step_series, equal_nan=True):
                    k = int(np.argwhere(~((vals == step_series) |
                                          (np.isnan(vals) & np.isnan(step_series))))[0][0])
                    raise Violation('H1', '%s: item %r at result set %d gives %r, stepping there '
                                    'and reading the table gives %r' % (what, item, k, vals[k],
                                                                         step_series[k]),
                                    key=self.h1_key(tabs))
                if len(times) != n or not np.array_equal(times, fulltimes):
                    raise Violation('H1.times', '%s: item %r is paired with times %r...'
                                    % (what, item, list(times[:3])))
            else:
                # short output included: the sub-series at the full result times must agree
                alltimes = np.array(lst.times)
                if not short or len(vals) != len(alltimes) or len(times) != len(alltimes):
                    raise Violation('H1.len', '%s: item %r has %d values for %d result sets (%d '
                                    'with short output)' % (what, item, len(vals), n,
                                                            len(alltimes)))
                ctx.probes['history_with_short_output'] += 1
                if len(vals) == len(alltimes):
                    idx = [k for k, s in enumerate(lst._short) if not s]
                    sub = vals[idx]
                    if not np.array_equal(sub, step_series, equal_nan=True):
                        raise Violation('H2', '%s: item %r: the values at full result times %r '
                                        'differ from stepping %r' % (what, item, list(sub[:4]),
                                                                     list(step_series[:4])))
                    if not np.array_equal(times, alltimes):
                        raise Violation('H2.times', '%s: item %r with short output is not paired '
                                        'with the times of all result sets' % (what, item))
                    # values at short-output-only times: an independent reading of the short
                    # table row with that key
                    poss = list(lst._pos)
                    checked = 0
                    for k, is_short in enumerate(lst._short):
                        if not is_short:
                            continue
                        span = (poss[k], poss[k + 1] if k + 1 < len(poss) else len(self.data))
                        rows = [L for L in locate_rows(self.data, lst, None, span=span)
                                if L.table == tname and L.row == r and L.full]
                        if len(rows) != 1:
                            continue
                        want = sign * F.fread(rows[0].tail[ci][1])
                        checked += 1
                        if not (want == vals[k] or (want != want and vals[k] != vals[k])):
                            raise Violation('H2.short', '%s: item %r at short-output result set '
                                            '%d gives %r, the short table prints %r'
                                            % (what, item, k, vals[k], rows[0].tail[ci][1]))
                    ctx.probes['short_output_values_checked'] += checked
        ctx.fp.append(('H', self.rel, tuple(sorted(set(tabs))), tabs[0] if tabs else '', short,
                       before[0] > 0))
        ctx.digest.add('HISTORY', repr(arg), [hashlib.md5(np.asarray(v).tobytes()).hexdigest()
                                              for t, v in res])

    def h1_key(self, tabs):
        return '-'

    def live_key(self, what):
        return '-'


# =====================================================================================
# C05 — listing tables hold exactly the numbers printed in the file
# =====================================================================================

_TOK = re.compile(r'\S+')


def is_num(tok):
    v = F.fread(tok)
    return v is not None and v == v


def tokenise(line):
    """Independent row tokeniser: (head text, [(column, text)] of the trailing run of
    blank-separated number tokens that carry a decimal point)."""
    toks = [(m.start(), m.group()) for m in _TOK.finditer(line)]
    tail = []
    for pos, t in reversed(toks):
        if '.' in t and is_num(t):
            tail.append((pos, t))
        else:
            break
    tail.reverse()
    head_end = tail[0][0] if tail else len(line)
    return line[:head_end], tail


def my_fixname(name):
    if len(name) == 5 and name[2].isdigit() and name[4].isdigit() and name[3] == ' ':
        return name[:3] + '0' + name[4]
    return name


def keys_of_head(head, nkeys):
    """Row key(s) printed in the head of a table line: the index integer is the last token, the
    5-character names before it end in a digit (searched right to left)."""
    h = head.rstrip()
    # strip the index (digits or overflow asterisks)
    m = re.search(r'(\s)([0-9]+|\*+)$', h)
    if not m:
        return None
    h = h[:m.start(2)].rstrip()
    keys = []
    pos = len(h) - 1
    for _ in range(nkeys):
        while pos >= 4 and not h[pos].isdigit():
            pos -= 1
        if pos < 4:
            return None
        keys.append(my_fixname(h[pos - 4:pos + 1]))
        pos -= 5
    keys.reverse()
    return keys[0] if nkeys == 1 else tuple(keys)


def header_tokens(colnames):
    out = []
    for c in colnames:
        out += c.split()
    return out


def is_header_of(line_tokens, htoks):
    it = iter(line_tokens)
    return all(any(t == x for x in it) for t in htoks)


class Located(object):
    __slots__ = ('table', 'row', 'offset', 'line', 'tail', 'full')


def locate_rows(data, lst, index, encoding='latin-1', span=None, allow_dups=False,
                printed=None):
    """For result set `index` of the (unmodified) image: the data lines of every table the
    reader exposes, found by an independent scan.  Returns list of Located."""
    starts = sorted(lst._pos)
    if span is not None:
        begin, end = span
    else:
        begin = lst._fullpos[index]
        later = [p for p in starts if p > begin]
        end = later[0] if later else len(data)
    tabs = [(name, lst._table[name]) for name in lst._tablenames]
    hdrs = [(name, header_tokens(t.column_name)) for name, t in tabs]
    keysets = {}
    for name, t in tabs:
        d = {}
        for r, k in enumerate(t.row_name):
            d.setdefault(k, []).append(r)
        keysets[name] = d
    out = []
    cur = None
    seen_hdr = set()
    pos = begin
    for raw in data[begin:end].split(b'\n'):
        line = raw.decode(encoding).rstrip('\r')
        off = pos
        pos += len(raw) + 1
        ltoks = line.split()
        if not ltoks:
            continue
        hit = None
        for name, ht in hdrs:
            if len(ltoks) >= len(ht) and 'INDEX' in ltoks or 'IND.' in ltoks:
                if is_header_of(ltoks, ht):
                    # several tables can share a prefix of names; prefer the first not yet seen
                    if hit is None or (hit in seen_hdr and name not in seen_hdr):
                        hit = name
        if hit is not None:
            cur = hit
            seen_hdr.add(hit)
            continue
        if cur is None:
            continue
        t = lst._table[cur]
        head, tail = tokenise(line)
        if not tail:
            continue
        key = keys_of_head(head, t.num_keys)
        if key is not None and printed is not None:
            printed.setdefault(cur, set()).add(key)       # every key printed under this header
        if key is None or key not in keysets[cur]:
            continue
        rows = keysets[cur][key]
        if len(rows) != 1 and not allow_dups:
            continue                      # duplicate keys (TOUGH2-MP): not addressed by name
        if len(rows) != 1:
            rows = rows[-1:]              # (only to learn that a row of this name is printed)
        L = Located()
        L.table, L.row, L.offset, L.line, L.tail = cur, rows[0], off, line, tail
        ncols = t.num_columns
        if t.column_name[0] == 'I':
            # integer first column (ECO2M): ncols-1 dotted values after one integer
            L.full = len(tail) == ncols - 1
        else:
            # the token before the dotted run must not be another number with a decimal point
            L.full = len(tail) == ncols
        out.append(L)
    # a row printed more than once (TOUGH2-MP prints shared rows once per processor): which
    # print the reader keeps is its choice, so such rows are not addressed
    if allow_dups:
        return out
    cnt = {}
    for L in out:
        cnt[(L.table, L.row)] = cnt.get((L.table, L.row), 0) + 1
    return [L for L in out if cnt[(L.table, L.row)] == 1]


def variants(tok, rng, room_left):
    """Other numbers of the same printed form (same width, same decimal-point column).
    Returns list of (kind, new text, shift) where shift=1 means the text starts one column
    earlier (a minus sign in the blank before the token)."""
    out = []
    m = re.match(r'^(-?)(\d*)\.(\d*)(?:([EeDd]?)([+-])(\d+))?$', tok)
    if not m:
        return out
    sign, ip, fp, letter, esign, ex = m.groups()
    has_exp = esign is not None
    def build(ip_, fp_, letter_=letter, esign_=esign, ex_=ex, sign_=sign):
        s = '%s%s.%s' % (sign_, ip_, fp_)
        if has_exp:
            s += '%s%s%s' % (letter_, esign_, ex_)
        return s
    zero = build('0' * len(ip), '0' * len(fp), ex_=('0' * len(ex) if has_exp else None))
    if has_exp and esign == '-':
        zero = build('0' * len(ip), '0' * len(fp), esign_='+', ex_='0' * len(ex))
    out.append(('zero', zero, 0))
    out.append(('nines', build('9' * len(ip), '9' * len(fp)), 0))
    scr_i = ''.join(rng.choice('123456789') for _ in ip)
    scr_f = ''.join(rng.choice('0123456789') for _ in fp)
    out.append(('scramble', build(scr_i, scr_f), 0))
    if sign == '-':
        out.append(('positive', ' ' + build(ip, fp, sign_=''), 0))
    elif room_left >= 2:
        out.append(('negative', '-' + tok, 1))
    if has_exp and letter and len(ex) == 2:
        out.append(('exp3_noE', build(ip, fp, letter_='', ex_='1' + ex), 0))
        if len(fp) >= 2:
            out.append(('exp3_E', build(ip, fp[:-1], ex_='1' + ex), 0))
        out.append(('expsign', build(ip, fp, esign_='-' if esign == '+' else '+'), 0))
        out.append(('small', build('1' if ip else '', '0' * len(fp) if ip else
                                   '1' + '0' * (len(fp) - 1), esign_='-', ex_='98'), 0))
        out.append(('big', build('9' * len(ip), '9' * len(fp), esign_='+', ex_='98'), 0))
    return [(k, t, sh) for k, t, sh in out if len(t) == len(tok) + sh and t.strip() != tok]


class TableMachine(ListingBase):
    PROP = 'C05'
    ACCESS = 'P6.access'
    OPS = ('TOKENS', 'REWRITE', 'SKIP', 'TRUNC', 'ADDR', 'OPEN')

    @classmethod
    def knobs(cls, rng, tier):
        k = {'tier': tier}
        w = {op: (rng.random() if rng.random() < 0.85 else 0.0) for op in cls.OPS}
        w['OPEN'] = 0.05
        w['REWRITE'] = max(w['REWRITE'], 0.4)
        k['weights'] = w
        k['nops'] = rng.choice((1, 2, 3, 4, 6))
        k['max_rewrites'] = rng.choice((1, 2, 4, 8))
        return k

    @classmethod
    def generate(cls, rng, knobs):
        R = rng.randrange
        ops = [['OPEN', [R(10 ** 6)], None]]
        kinds = [o for o in cls.OPS if knobs['weights'][o] > 0]
        wts = [knobs['weights'][o] for o in kinds]
        for _ in range(knobs['nops']):
            kd = rng.choices(kinds, wts)[0]
            ops.append([kd, [R(10 ** 6), R(10 ** 6), 1 + R(knobs['max_rewrites'])], None])
        return ops

    def apply(self, op):
        kind, ch = op[0], list(op[1]) + [0] * 4
        ctx = self.ctx
        if kind == 'OPEN':
            cat = catalogue(self.tier)
            self.rel = cat[ch[0] % len(cat)]
            self.data = image(self.rel)
            self.rewritten = {}            # (table, index, row, col) -> expected value
            ctx.digest.add('OPEN', self.rel)
            ctx.fp.append(('OPEN', self.rel))
            ctx.probes['file:' + self.rel] += 1
            return
        if self.rel is None:
            ctx.stats['skip_noopen'] += 1
            return
        done = getattr(self, 'op_' + kind)(ch)
        if done is False:
            ctx.stats['skip_' + kind] += 1
            return
        ctx.stats['op_' + kind] += 1
        ctx.state_changes += 1
        ctx.fp.append((kind, self.rel, done if isinstance(done, (int, str, tuple)) else 0))
        ctx.digest.add(kind, self.rel, sha(self.data), repr(done))

    def reader(self, data, skip=()):
        return self.open_image(self.rel, data, skip)

    def nfull(self):
        return self.fresh_meta()[0]

    def fresh_meta(self):
        key = ('meta', self.rel, sha(self.data))
        if key not in _FRESH:
            lst = self.reader(self.data)
            _FRESH[key] = (lst.num_fulltimes, list(lst._tablenames))
            lst.close()
        return _FRESH[key]

    def position(self, lst, i, n, c):
        """Go to result set i by one of the equivalent ways of addressing it."""
        way = c % 4
        if c % 7 == 6:
            # a transient read error part-way through the positioning; the caller asks again
            acts = {0: lambda: setattr(lst, 'index', i), 1: lambda: setattr(lst, 'index', i - n),
                    2: lambda: setattr(lst, 'time', float(lst.fulltimes[i])),
                    3: lambda: setattr(lst, 'step', int(lst.fullsteps[i]))}
            if way >= 2 and (list(lst.fulltimes).count(lst.fulltimes[i]) > 1 or
                             list(lst.fullsteps).count(lst.fullsteps[i]) > 1):
                way = 0
            if self.faulted(acts[way], 'positioning at result set %d' % i, (c // 7 * 37) % 400):
                self.ctx.probes['positioning_retried_after_read_error'] += 1
            self.guarded(acts[way], 'positioning at result set %d (retry)' % i)
        elif way == 1:
            self.guarded(lambda: setattr(lst, 'index', i - n), 'index = %d' % (i - n))
        elif way == 2 and i == n - 1:
            self.guarded(lst.last, 'last()')
        elif way == 3 and i == 0:
            self.guarded(lst.first, 'first()')
        else:
            self.guarded(lambda: setattr(lst, 'index', i), 'index = %d' % i)
        if lst.index != i:
            raise Violation('P0', 'positioning at result set %d of %d left index %d'
                            % (i, n, lst.index))

    # ---- P3: independent tokeniser against the reader's cells
    def op_TOKENS(self, ch):
        n = self.nfull()
        i = ch[0] % n
        lst = self.reader(self.data)
        self.position(lst, i, n, ch[1])
        printed = {}
        located = locate_rows(self.data, lst, i, printed=printed)
        # P0: rows are keyed by the printed names with the (a3,i2) blank repaired - in every
        # table alike (an element 'AJ205' and a connection ('AJ2 5', ...) would not find each
        # other); the repair is stated by the harness on its own (my_fixname)
        for tname in lst._tablenames:
            t = lst._table[tname]
            for rn in t.row_name:
                for comp in (rn if isinstance(rn, tuple) else (rn,)):
                    if isinstance(comp, str) and my_fixname(comp) != comp:
                        raise Violation('P0', '%s table %s: row %r is keyed by the name %r as '
                                        'printed, not in its repaired form %r'
                                        % (self.rel, tname, rn, comp, my_fixname(comp)))
        for tname, keys in sorted(printed.items()):
            rn = list(lst._table[tname].row_name)
            self.ctx.probes['row_names_not_seen_by_the_independent_scan'] += \
                sum(1 for k in rn if k not in keys)
        self.ctx.probes['tables_keys_compared'] += len(printed)
        nfull = 0
        for L in located:
            t = lst._table[L.table]
            vals = [F.fread(tok) for _, tok in L.tail]
            got = list(t._data[L.row, :])
            if L.full:
                nfull += 1
                if t.column_name[0] == 'I':
                    got = got[1:]
                for j, (v, g) in enumerate(zip(vals, got)):
                    if not (v == g or (v != v and g != g)):
                        raise Violation('P3', '%s result set %d table %s row %r column %r: the '
                                        'file prints %r, the table holds %r'
                                        % (self.rel, i, L.table, t.row_name[L.row],
                                           t.column_name[j + (t.column_name[0] == 'I')],
                                           L.tail[j][1], g))
            else:
                # short row: the printed numbers, in order, are the row's non-zero cells
                pv = [v for v in vals if v != 0.0]
                gv = [g for g in got if g != 0.0]
                if t.column_name[0] == 'I':
                    continue
                if pv != gv and not (len(pv) <= len(gv) and all(a == b for a, b in zip(pv, gv))):
                    raise Violation('P3.short', '%s result set %d table %s row %r prints %r but '
                                    'the table holds %r' % (self.rel, i, L.table,
                                                            t.row_name[L.row], vals, got))
        ctx = self.ctx
        ctx.probes['rows_located'] += len(located)
        ctx.probes['rows_located_full'] += nfull
        ctx.probes['rows_total'] += sum(lst._table[nm].num_rows for nm in lst._tablenames)
        lst.close()
        return (i > 0, min(nfull, 3))

    # ---- P1 / P2: stored-number rewrites
    def op_REWRITE(self, ch):
        ctx = self.ctx
        rng = random.Random(H('rewrite', ch[1]))
        n = self.nfull()
        lst = self.reader(self.data)
        data, cells = self.choose_rewrites(self.data, lst, rng, ch[2])
        lst.close()
        if not cells:
            return False
        new_data = bytes(data)
        old_data = self.data
        # read the rewritten image with a fresh reader at every index
        lst2 = self.reader(new_data)
        if lst2.num_fulltimes != n:
            raise Violation('P2', '%s: after rewriting %d numbers the reader sees %d result sets '
                            'instead of %d' % (self.rel, len(cells), lst2.num_fulltimes, n))
        # every result set is visited, in a seeded order with revisits (what a table shows must not
        # depend on where the reader was before)
        order = list(range(n))
        rng.shuffle(order)
        order = order + [order[rng.randrange(n)] for _ in range(min(n, 3))]
        self.live_data = new_data
        for vi, i in enumerate(order):
            if ch[0] % 3 == 0 and vi == 1 + (ch[0] // 3) % max(1, len(order) - 1):
                # meanwhile another part of the program opens a listing of another simulator
                self.other_reader(ch[0] // 7)
            if ch[0] % 5 == 1 and vi == (ch[0] // 5) % len(order) and n > 1 and \
                    'element' in lst2._tablenames:
                # the caller asks for the change between two result sets (which moves the
                # reader about) before going where it wanted to go
                j = (i + 1 + (ch[0] // 11) % (n - 1)) % n
                self.guarded(lambda: lst2.get_difference(i, j), 'get_difference(%d, %d) on %s'
                             % (i, j, self.rel))
                ctx.probes['get_difference_between_visits'] += 1
            self.position(lst2, i, n, ch[1] + vi)
            if ch[0] % 5 == 2 and vi == (ch[0] // 5) % len(order) and n > 1:
                # table arithmetic with the table of a second reader standing elsewhere: the
                # operands are not changed by it
                j = (i + 1 + (ch[0] // 11) % (n - 1)) % n
                lst3 = self.reader(new_data)
                self.position(lst3, j, n, 0)
                for nm in lst2._tablenames:
                    a, b = getattr(lst2, nm, lst2._table[nm]), getattr(lst3, nm, lst3._table[nm])
                    a0, b0 = a._data.copy(), b._data.copy()
                    d = self.guarded(lambda: (a - b, a + b), 'table arithmetic on %s' % nm)
                    if not (np.array_equal(d[0]._data, a0 - b0, equal_nan=True) and
                            np.array_equal(d[1]._data, a0 + b0, equal_nan=True)):
                        raise Violation('P6.arith', '%s table %s: difference / sum of the tables '
                                        'at result sets %d and %d is not the difference / sum of '
                                        'their numbers' % (self.rel, nm, i, j))
                    if not np.array_equal(b._data, b0, equal_nan=True):
                        raise Violation('P6.arith', '%s table %s: table arithmetic changed its '
                                        'right operand' % (self.rel, nm))
                lst3.close()
                ctx.probes['table_arithmetic_between_readers'] += 1
            got = self.snap(lst2)
            want = self.fresh_at(self.rel, old_data, (), i)
            if list(got[3]) != list(want[3]):
                raise Violation('P2', '%s: rewriting numbers changed the tables found: %r -> %r'
                                % (self.rel, list(want[3]), list(got[3])))
            for name in want[3]:
                wr, wd = want[3][name]
                gr, gd = got[3][name]
                if wr != gr:
                    raise Violation('P2', '%s: rewriting numbers changed the row names of table '
                                    '%s at result set %d' % (self.rel, name, i))
                exp = wd.copy()
                mine = [c for c in cells if c[0] == name and c[1] == i]
                for c in mine:
                    if isinstance(c[3], tuple):
                        # short row: compare by the non-zero sequence, then exclude from P2
                        nz = tuple(v for v in gd[c[2], :] if v != 0.0)
                        if nz != c[3][1]:
                            raise Violation('P1.short', '%s result set %d table %s row %r: %r was '
                                            'replaced in the file by %r (%s); the row prints %r '
                                            'but the table holds %r'
                                            % (self.rel, i, name, wr[c[2]], c[5], c[6], c[7],
                                               list(c[3][1]), list(gd[c[2], :])))
                        exp[c[2], :] = gd[c[2], :]
                    else:
                        exp[c[2], c[3]] = c[4]
                diff = np.argwhere(~((exp == gd) | (np.isnan(exp) & np.isnan(gd))))
                if len(diff):
                    r, cc = diff[0]
                    hit = [c for c in mine if (c[2], c[3]) == (r, cc)]
                    if hit:
                        c = hit[0]
                        raise Violation('P1', '%s result set %d table %s row %r column %r: %r '
                                        'was replaced in the file by %r (%s) but the table holds '
                                        '%r' % (self.rel, i, name, wr[r],
                                                lst2._table[name].column_name[cc], c[5], c[6],
                                                c[7], gd[r, cc]), key=self.p1_key(c))
                    raise Violation('P2', '%s result set %d table %s row %r column %r changed '
                                    'from %r to %r although it was not rewritten (rewrites: %r)'
                                    % (self.rel, i, name, wr[r],
                                       lst2._table[name].column_name[cc], wd[r, cc], gd[r, cc],
                                       [(c[0], c[1], c[5], c[6]) for c in cells]),
                                    key=self.p2_key(cells))
        lst2.close()
        self.live_data = None
        self.data = new_data
        return tuple(sorted(set(c[7] for c in cells)))

    def p1_key(self, c):
        return '-'

    def p2_key(self, cells):
        return '-'

    # ---- P5: skipping tables does not change the others
    def op_SKIP(self, ch):
        n, names = self.fresh_meta()
        mask = 1 + ch[0] % (2 ** len(names) - 1)
        skip = tuple(nm for b, nm in enumerate(names) if mask >> b & 1)
        # the documentation gives skip_tables as a list of names; the project's own tests also
        # pass one name as a plain string, which the readers match by substring (so it may skip
        # more than the table named): then only "what is exposed holds what the file prints" is
        # demanded
        as_str = len(skip) == 1 and ch[1] % 3 == 0
        name = self.fs_name(self.rel, self.data)
        self.ctx.fs.put(name, self.data)
        self.op_budget = self.budget(self.data, n)
        what = 'opening %s with skip_tables=%r' % (self.rel, skip[0] if as_str else skip)
        lst = self.guarded(lambda: self.tl.t2listing(ROOT + name,
                                                     skip_tables=skip[0] if as_str else list(skip)),
                           what)
        for i in range(n):
            if i:
                self.guarded(lambda: setattr(lst, 'index', i), what + ', index = %d' % i)
            got = self.snap(lst)
            want = self.fresh_at(self.rel, self.data, (), i)
            if (got[1], got[2]) != (want[1], want[2]):
                raise Violation('P5', '%s: time/step differ at result set %d' % (what, i))
            for name in want[3]:
                if name in skip:
                    continue
                if name not in got[3] and as_str:
                    continue
                if name not in got[3]:
                    raise Violation('P5', '%s: table %s disappeared' % (what, name),
                                    key=self.p5_key(skip))
                wr, wd = want[3][name]
                gr, gd = got[3][name]
                if wr != gr or not np.array_equal(wd, gd, equal_nan=True):
                    raise Violation('P5', '%s: table %s at result set %d differs from the one '
                                    'read without skipping' % (what, name, i),
                                    key=self.p5_key(skip))
        lst.close()
        self.ctx.probes['skip_subset_size_%d' % len(skip)] += 1
        if as_str:
            self.ctx.probes['skip_tables_as_a_plain_string'] += 1
        return skip

    def p5_key(self, skip):
        return '-'

    def exc_key(self, what, e):
        return '-'

    # ---- P4: the writer stopped after k result sets
    def op_TRUNC(self, ch):
        if self.data is not image(self.rel) and self.data != image(self.rel):
            return False          # only the shipped image is truncated
        n = self.nfull()
        if n < 2:
            return False
        keep = 1 + ch[0] % (n - 1)
        t = self.truncated(self.rel, keep)
        if t is None:
            self.ctx.probes['truncation_discarded'] += 1
            return False
        for i in range(keep):
            got = self.fresh_at(self.rel, t, (), i)
            want = self.fresh_at(self.rel, self.data, (), i)
            self.compare_snap(want, got, '%s truncated after %d result sets, index %d'
                              % (self.rel, keep, i), check='P4')
        return keep

    # ---- P6: the three ways of addressing a cell agree
    def op_ADDR(self, ch):
        n = self.nfull()
        i = ch[0] % n
        rng = random.Random(H('addr', ch[1]))
        lst = self.reader(self.data)
        if i:
            self.guarded(lambda: setattr(lst, 'index', i), 'index = %d' % i)
        for name in lst._tablenames:
            t = lst._table[name]
            if not t.num_rows:
                continue
            rows = set([0, t.num_rows - 1] + [rng.randrange(t.num_rows) for _ in range(6)])
            dup = set(k for k in t.row_name if t.row_name.count(k) > 1) if t.num_rows < 3000 \
                else set()
            for r in rows:
                byidx = t[r]
                key = t.row_name[r]
                if byidx['key'] != key:
                    raise Violation('P6', '%s table %s row %d reports key %r, row names say %r'
                                    % (self.rel, name, r, byidx['key'], key))
                for col in t.column_name:
                    a, c = byidx[col], t[col][r]
                    if not (a == c or (a != a and c != c)):
                        raise Violation('P6', '%s table %s: [%d][%r] = %r but [%r][%d] = %r'
                                        % (self.rel, name, r, col, a, col, r, c))
                    if key not in dup:
                        b = t[key][col]
                        if not (a == b or (a != a and b != b)):
                            raise Violation('P6', '%s table %s: [%d][%r] = %r but [%r][%r] = %r'
                                            % (self.rel, name, r, col, a, key, col, b))
                if t.allow_reverse_keys and t.num_keys > 1 and key[::-1] not in t._row:
                    rev = t[key[::-1]]
                    if rev is None or any(not (rev[c] == -byidx[c] or
                                               (rev[c] != rev[c] and byidx[c] != byidx[c]))
                                          for c in t.column_name):
                        raise Violation('P6', '%s table %s: reversed key %r does not give the '
                                        'negated row' % (self.rel, name, key[::-1]))
        if n > 1:
            # ... and again after moving: the three ways of addressing must follow the move
            i2 = (i + 1 + ch[1] % (n - 1)) % n
            self.position(lst, i2, n, ch[0])
            for name in lst._tablenames:
                t = lst._table[name]
                for ci, col in enumerate(t.column_name):
                    a = np.asarray(t[col])
                    b = t._data[:, ci]
                    if a.shape != b.shape or not np.array_equal(a, b, equal_nan=True):
                        raise Violation('P6', '%s table %s: column %r fetched by name after moving '
                                        'from result set %d to %d is not the column the table '
                                        'holds' % (self.rel, name, col, i, i2))
            if ch[1] % 3 == 0 and lst._tablenames:
                # the caller also pulls a time series out of the same reader, then steps on: the
                # tables it sees next are those of the neighbouring result set
                t0 = lst._table[lst._tablenames[0]]
                if t0.num_rows:
                    sel = (SPEC[lst._tablenames[0]], 0, t0.column_name[-1])
                    self.guarded(lambda: lst.history(sel), 'history(%r)' % (sel,))
                    j = i2 + 1 if i2 < n - 1 else i2 - 1
                    moved = self.guarded(lst.next if j > i2 else lst.prev, 'next()/prev()')
                    got = self.snap(lst)
                    want = self.fresh_at(self.rel, self.data, (), j)
                    self.compare_snap(want, got, '%s: history() at result set %d, then %s'
                                      % (self.rel, i2, 'next()' if j > i2 else 'prev()'),
                                      check='P6.nav')
                    self.ctx.probes['history_then_step_in_table_check'] += 1
        lst.close()
        return i > 0
