"""The hash-order scheduler (DESIGN 2.4).

mulgrids puts node/column/connection/layer/well objects into sets and iterates them; with the
default id()-based hash the iteration order depends on memory addresses.  Here every such object
gets, at allocation, a hash drawn from the run's `hash` PRNG stream, so one seed is one order.
__eq__ stays identity, so set/dict *semantics* are unchanged; only iteration order moves.
"""
import random


class HashScheduler(object):
    def __init__(self):
        self.rng = random.Random(0)
        self.installed = False
        self.allocated = 0

    def reseed(self, seed):
        self.rng = random.Random(seed)
        self.allocated = 0

    def install(self):
        if self.installed:
            return
        import mulgrids
        sched = self

        def make_new(cls):
            def __new__(c, *a, **k):
                o = object.__new__(c)
                o.__dict__['_verif_h'] = sched.rng.getrandbits(60)
                sched.allocated += 1
                return o
            return __new__

        def __hash__(self):
            return self.__dict__['_verif_h']

        def __setstate__(self, state):
            # deepcopy / pickle: the copy keeps the hash it was allocated with (it may already
            # sit in a set of a half-built cyclic copy), everything else is taken over
            if isinstance(state, dict):
                state = dict(state)
                state.pop('_verif_h', None)
                self.__dict__.update(state)
            else:
                raise TypeError('unexpected state')

        for cls in (mulgrids.node, mulgrids.column, mulgrids.connection, mulgrids.layer,
                    mulgrids.well):
            cls.__new__ = staticmethod(make_new(cls))
            cls.__hash__ = __hash__
            cls.__setstate__ = __setstate__
        self.installed = True


SCHED = HashScheduler()
