"""Process-global state of the modules under test, as a seam.

Module-level and class-level containers of the PyTOUGH modules (format tables, default parameter
dictionaries, anything a change might add as a class-level cache) outlive a run when many runs
share one worker process.  A run must be a function of its seed alone, so before every run the
simulator puts that state back to what it was right after import: containers are restored in
place, rebinding is undone and attributes that did not exist are removed.  State carried from
one *operation* to the next inside a run is of course kept - that is what the runs explore.
"""
import copy
import functools
import sys
import types

import numpy as np

MODULES = ('fixed_format_file', 'geometry', 'mulgrids', 't2grids', 't2incons', 't2data',
           't2listing', 't2thermo', 'IAPWS97')
_MUTABLE = (dict, list, set, bytearray, np.ndarray)


def _same(a, b):
    """Structural equality that copes with arrays, partials and NaN."""
    if a is b:
        return True
    if type(a) is not type(b):
        return False
    try:
        if isinstance(a, dict):
            return len(a) == len(b) and all(k in b and _same(v, b[k]) for k, v in a.items())
        if isinstance(a, (list, tuple)):
            return len(a) == len(b) and all(_same(x, y) for x, y in zip(a, b))
        if isinstance(a, functools.partial):
            return _same(a.func, b.func) and _same(a.args, b.args) and \
                _same(a.keywords, b.keywords)
        if isinstance(a, np.ndarray):
            return a.shape == b.shape and a.dtype == b.dtype and \
                (np.array_equal(a, b, equal_nan=True) if a.dtype.kind in 'fc'
                 else np.array_equal(a, b))
        if isinstance(a, float):
            return a == b or (a != a and b != b)
        r = (a == b)
        return r if isinstance(r, bool) else bool(r)
    except Exception:
        return False


def _restore(obj, clean):
    if _same(obj, clean):
        return 0
    fresh = copy.deepcopy(clean)
    if isinstance(obj, (dict, set)):
        obj.clear()
        obj.update(fresh)
    elif isinstance(obj, np.ndarray):
        if obj.shape == fresh.shape:
            obj[...] = fresh
    else:
        obj[:] = fresh
    return 1


class GlobalState(object):
    def __init__(self):
        self.pristine = None
        self.restored = 0

    def _holders(self):
        for name in MODULES:
            mod = sys.modules.get(name)
            if mod is None:
                continue
            yield ('module', name), mod, vars(mod)
            for k, v in list(vars(mod).items()):
                if isinstance(v, type) and getattr(v, '__module__', None) == name:
                    yield ('class', name, k), v, vars(v)

    @staticmethod
    def _functions(ns):
        for k, v in ns.items():
            if isinstance(v, (staticmethod, classmethod)):
                v = v.__func__
            if isinstance(v, property):
                for f in (v.fget, v.fset, v.fdel):
                    if isinstance(f, types.FunctionType):
                        yield f
            elif isinstance(v, types.FunctionType):
                yield v

    @classmethod
    def _snap(cls, ns):
        names = set(ns.keys())
        muts = {}
        for k, v in ns.items():
            if isinstance(v, _MUTABLE) and not k.startswith('__'):
                try:
                    muts[k] = (v, copy.deepcopy(v))
                except Exception:
                    pass
        # mutable default argument values are process-global state too
        defaults = []
        for f in cls._functions(ns):
            vals = list(f.__defaults__ or ()) + list((f.__kwdefaults__ or {}).values())
            for v in vals:
                if isinstance(v, _MUTABLE):
                    try:
                        defaults.append((v, copy.deepcopy(v)))
                    except Exception:
                        pass
                elif type(v).__module__ in MODULES and hasattr(v, '__dict__'):
                    # an object of the library as a default value (evaluated once, shared by
                    # every call): its attributes are process-global state as well
                    try:
                        defaults.append((v.__dict__, copy.deepcopy(v.__dict__)))
                    except Exception:
                        pass
        return names, muts, defaults

    def reset(self):
        """Restore; returns the number of things that had changed (a probe, not an oracle)."""
        if self.pristine is None:
            self.pristine = {}
        changed = 0
        for key, holder, ns in self._holders():
            if key not in self.pristine:           # first sight (module imported since)
                self.pristine[key] = self._snap(ns)
                continue
            names, muts, defaults = self.pristine[key]
            for k in [k for k in list(ns.keys()) if k not in names and not k.startswith('__')]:
                if isinstance(ns[k], _MUTABLE + (type(None), int, float, str, tuple)):
                    try:
                        delattr(holder, k)
                        changed += 1
                    except Exception:
                        pass
            for k, (obj, clean) in muts.items():
                cur = ns.get(k, None)
                if cur is not obj:
                    setattr(holder, k, obj)
                    changed += 1
                changed += _restore(obj, clean)
            for obj, clean in defaults:
                changed += _restore(obj, clean)
        self.restored += changed
        return changed


GLOBALS = GlobalState()
