"""One integer decides everything: seed derivation and named PRNG streams (DESIGN 2.2)."""
import hashlib
import random


def H(*parts):
    """64-bit integer derived from the canonical repr of the parts (sha256)."""
    m = hashlib.sha256()
    for p in parts:
        m.update(repr(p).encode('utf-8'))
        m.update(b'\x00')
    return int.from_bytes(m.digest()[:8], 'big')


def stream(seed, tag):
    """Independent PRNG stream `tag` of run seed `seed`."""
    return random.Random(H(seed, tag))


def run_seed(master, prop, i):
    return H(master, prop, i)


def block_hashseed(master, prop, block):
    return H(master, prop, 'phs', block) % (2 ** 32)


class Digest(object):
    """Event digest: sha256 over canonical reprs of everything observable an op produced."""

    def __init__(self):
        self._m = hashlib.sha256()
        self.n = 0

    def add(self, *parts):
        for p in parts:
            if isinstance(p, bytes):
                self._m.update(b'b')
                self._m.update(p)
            else:
                self._m.update(repr(p).encode('utf-8', 'replace'))
            self._m.update(b'\x00')
        self.n += 1

    def hex(self):
        return self._m.hexdigest()[:32]
