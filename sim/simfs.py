"""SimFS: the in-memory storage model every PyTOUGH file access goes through (DESIGN 2.3).

An image `name -> bytes` holds what has been flushed.  Write handles buffer up to `bufsize`
bytes; only flushed bytes are visible to other handles and survive a crash.  Every open, flush,
close, read and seek is one numbered I/O step; faults are placed on steps.
"""
import errno
import hashlib
import os

ROOT = 'sim:/'


class SimCrash(BaseException):
    """The simulated process died at this I/O step."""


class SimBudgetExceeded(BaseException):
    """An operation used more I/O steps than its liveness budget allows."""


class HarnessError(Exception):
    """The harness (not PyTOUGH) did something wrong, or PyTOUGH used an unmodelled file method."""


# which step classes each fault kind can land on
ELIGIBLE = {
    'ENOSPC': ('flush', 'close_w'),
    'EIO': ('read',),
    'EMFILE': ('open_r', 'open_w'),
    'EACCES': ('open_w',),
    'CRASH': ('open_r', 'open_w', 'flush', 'close_w', 'close_r', 'read', 'seek'),
}
FAULT_KINDS = tuple(sorted(ELIGIBLE))
ERRNO = {'ENOSPC': errno.ENOSPC, 'EIO': errno.EIO, 'EMFILE': errno.EMFILE, 'EACCES': errno.EACCES}


class SimFS(object):

    def __init__(self, bufsize=None):
        self.files = {}
        self.bufsize = bufsize          # None = unbounded (flush at close only)
        self.handles = []
        self.step = 0                   # global I/O step number ("simulated time")
        self.op_step = 0
        self.op_budget = None
        self.eof_limit = 5000
        self.class_count = {}
        self.armed = None               # [kind, eligible index, fraction]
        self.fired = []                 # (kind, step class, name, global step)
        self.crashed = False
        self._trace = hashlib.sha256()
        self.steps_by_class = {}
        self.opens = []                 # names opened during current op (probe support)

    # ---------------------------------------------------------------- op framing / faults

    def begin_op(self, budget=None):
        self.op_step = 0
        self.class_count = {}
        self.op_budget = budget
        self.opens = []

    def arm(self, kind, index, frac=0.5):
        if kind not in ELIGIBLE:
            raise HarnessError('unknown fault kind %r' % (kind,))
        self.armed = [kind, index, frac]

    def disarm(self):
        a, self.armed = self.armed, None
        return a

    def eligible_count(self, kind):
        return sum(self.class_count.get(c, 0) for c in ELIGIBLE[kind])

    def _tick(self, cls, name, handle=None, nbytes=0):
        if self.crashed:
            raise HarnessError('I/O after crash without restart')
        self.step += 1
        self.op_step += 1
        self.steps_by_class[cls] = self.steps_by_class.get(cls, 0) + 1
        self._trace.update(('%s|%s|%d\n' % (cls, name, nbytes)).encode())
        if self.op_budget is not None and self.op_step > self.op_budget:
            raise SimBudgetExceeded('operation exceeded %d I/O steps (at %s %s)'
                                    % (self.op_budget, cls, name))
        fire = None
        if self.armed is not None:
            kind, index, frac = self.armed
            if cls in ELIGIBLE[kind]:
                if self.eligible_count(kind) == index:
                    fire = (kind, frac)
        self.class_count[cls] = self.class_count.get(cls, 0) + 1
        if fire is not None:
            self.armed = None
            kind, frac = fire
            self.fired.append((kind, cls, name, self.step))
            if kind == 'CRASH':
                self.crash()
                raise SimCrash('crash at step %d (%s %s)' % (self.step, cls, name))
            return kind, frac
        return None

    def crash(self):
        """Process death: unflushed buffers are lost, every handle dies, the image survives."""
        for h in self.handles:
            h._dead = True
            if hasattr(h, '_buf'):
                h._buf = bytearray()
        self.handles = []
        self.crashed = True

    def restart(self):
        self.crashed = False
        self.armed = None

    def trace_digest(self):
        return self._trace.hexdigest()[:16]

    # ---------------------------------------------------------------- the seam

    def _name(self, filename):
        if not isinstance(filename, str):
            raise HarnessError('non-string filename %r' % (filename,))
        if not filename.startswith(ROOT):
            raise HarnessError('file access outside the simulated root: %r' % (filename,))
        return filename[len(ROOT):]

    def open(self, filename, mode='r', *args, **kwargs):
        name = self._name(filename)
        m = mode.replace('U', '')
        binary = 'b' in m
        base = m.replace('b', '').replace('t', '')
        if base == 'r':
            self.opens.append(name)
            f = self._tick('open_r', name)
            if f is not None:
                raise OSError(ERRNO[f[0]], os.strerror(ERRNO[f[0]]), filename)
            if name not in self.files:
                raise FileNotFoundError(errno.ENOENT, os.strerror(errno.ENOENT), filename)
            h = _ReadHandle(self, name, binary)
        elif base == 'w':
            self.opens.append(name)
            f = self._tick('open_w', name)
            if f is not None:
                raise OSError(ERRNO[f[0]], os.strerror(ERRNO[f[0]]), filename)
            self.files[name] = b''       # POSIX: truncation happens at open
            h = _WriteHandle(self, name, binary)
        elif base in ('r+', '+r'):
            # update in place: no truncation, writes overwrite from the start of the file
            self.opens.append(name)
            f = self._tick('open_w', name)
            if f is not None:
                raise OSError(ERRNO[f[0]], os.strerror(ERRNO[f[0]]), filename)
            if name not in self.files:
                raise FileNotFoundError(errno.ENOENT, os.strerror(errno.ENOENT), filename)
            h = _WriteHandle(self, name, binary)
            h._overwrite_at = 0
        else:
            raise HarnessError('unmodelled open mode %r' % (mode,))
        self.handles.append(h)
        return h

    def exists(self, filename):
        return self._name(filename) in self.files

    def replace(self, name, data):
        """Another party replaces a file by rename-over: handles that are open on the old file
        keep reading the old bytes (POSIX keeps the inode alive), new opens see the new file."""
        old = self.files.get(name, b'')
        for h in self.handles:
            if h._name == name and isinstance(h, _ReadHandle) and h._snapshot is None:
                h._snapshot = old
        self.files[name] = bytes(data)

    # convenience for the harness (not steps: the harness is not the system under test)
    def put(self, name, data):
        self.files[name] = bytes(data)

    def get(self, name):
        return self.files.get(name)


class _Handle(object):
    def __init__(self, fs, name, binary):
        self._fs, self._name, self._binary = fs, name, binary
        self._dead = False
        self.closed = False

    def __enter__(self):
        return self

    def __exit__(self, *exc):
        self.close()
        return False

    def __getattr__(self, attr):
        if attr.startswith('_'):
            raise AttributeError(attr)
        raise HarnessError('file method %r is not modelled by SimFS' % (attr,))

    def _check(self):
        if self._dead:
            raise HarnessError('use of a handle that died in a crash')
        if self.closed:
            raise ValueError('I/O operation on closed file.')

    def _forget(self):
        try:
            self._fs.handles.remove(self)
        except ValueError:
            pass


class _ReadHandle(_Handle):
    def __init__(self, fs, name, binary):
        _Handle.__init__(self, fs, name, binary)
        self._pos = 0
        self._eofs = 0
        self._snapshot = None

    def _data(self):
        if self._snapshot is not None:
            return self._snapshot
        return self._fs.files.get(self._name, b'')

    def _io(self, nbytes):
        f = self._fs._tick('read', self._name, self, nbytes)
        if f is not None:
            raise OSError(ERRNO[f[0]], os.strerror(ERRNO[f[0]]), ROOT + self._name)

    def _eof(self, got):
        if got:
            self._eofs = 0
        else:
            self._eofs += 1
            if self._eofs > self._fs.eof_limit:
                raise SimBudgetExceeded('%d consecutive reads at end of file %s'
                                        % (self._eofs, self._name))

    def readline(self, *size):
        self._check()
        if size:
            raise HarnessError('readline(size) not modelled')
        data = self._data()
        i = data.find(b'\n', self._pos)
        end = len(data) if i < 0 else i + 1
        chunk = data[self._pos:end]
        self._io(len(chunk))
        self._pos = end
        self._eof(chunk)
        if self._binary:
            return chunk
        s = chunk.decode('utf-8', 'replace')
        if s.endswith('\r\n'):
            s = s[:-2] + '\n'
        return s

    def read(self, n=-1):
        self._check()
        data = self._data()
        end = len(data) if (n is None or n < 0) else min(len(data), self._pos + n)
        chunk = data[self._pos:end]
        self._io(len(chunk))
        self._pos = end
        self._eof(chunk)
        if self._binary:
            return chunk
        return chunk.decode('utf-8', 'replace').replace('\r\n', '\n')

    def seek(self, pos, whence=0):
        self._check()
        if not self._binary:
            raise HarnessError('seek on a text handle not modelled')
        self._fs._tick('seek', self._name, self, 0)
        if whence == 0:
            self._pos = pos
        elif whence == 1:
            self._pos += pos
        elif whence == 2:
            self._pos = len(self._data()) + pos
        else:
            raise HarnessError('bad whence')
        if self._pos < 0:
            raise OSError(errno.EINVAL, 'Invalid argument')
        return self._pos

    def tell(self):
        self._check()
        if not self._binary:
            raise HarnessError('tell on a text handle not modelled')
        return self._pos

    def close(self):
        if self.closed or self._dead:
            return
        self.closed = True
        self._forget()
        self._fs._tick('close_r', self._name, self, 0)

    def __iter__(self):
        raise HarnessError('iteration over a file not modelled')


class _WriteHandle(_Handle):
    def __init__(self, fs, name, binary):
        _Handle.__init__(self, fs, name, binary)
        self._buf = bytearray()
        self._overwrite_at = None      # 'r+' handles: position of the next byte in the file

    def _commit(self, chunk):
        fs = self._fs
        cur = fs.files.get(self._name, b'')
        if self._overwrite_at is None:
            fs.files[self._name] = cur + bytes(chunk)
        else:
            a = self._overwrite_at
            fs.files[self._name] = cur[:a] + bytes(chunk) + cur[a + len(chunk):]
            self._overwrite_at = a + len(chunk)

    def write(self, s):
        self._check()
        if self._binary:
            if not isinstance(s, (bytes, bytearray)):
                raise TypeError("a bytes-like object is required, not '%s'" % type(s).__name__)
            b = bytes(s)
        else:
            if not isinstance(s, str):
                raise TypeError('write() argument must be str, not %s' % type(s).__name__)
            b = s.encode('utf-8')
        self._buf += b
        cap = self._fs.bufsize
        if cap is not None and len(self._buf) >= cap:
            self._flush('flush')
        return len(s)

    def _flush(self, cls):
        fs = self._fs
        f = fs._tick(cls, self._name, self, len(self._buf))
        if f is not None:
            # short write: a prefix reaches the image, the rest stays buffered, the call fails
            k = int(len(self._buf) * f[1])
            self._commit(self._buf[:k])
            del self._buf[:k]
            raise OSError(ERRNO[f[0]], os.strerror(ERRNO[f[0]]), ROOT + self._name)
        self._commit(self._buf)
        self._buf = bytearray()

    def flush(self):
        self._check()
        self._flush('flush')

    def close(self):
        if self.closed or self._dead:
            return
        # as io.BufferedWriter: the handle is closed even when the final flush fails
        self.closed = True
        self._forget()
        self._flush('close_w')

    def __del__(self):
        # CPython closes (and so flushes) a collected file object; errors there are swallowed
        try:
            if not self.closed and not self._dead and not self._fs.crashed:
                self.closed = True
                self._forget()
                fs = self._fs
                self._commit(self._buf)
                fs.steps_by_class['gc_close'] = fs.steps_by_class.get('gc_close', 0) + 1
        except Exception:
            pass


class _IOShim(object):
    """Stands in for the `io` module inside t2listing."""
    def __init__(self, fs_holder):
        self._h = fs_holder

    def open(self, filename, mode='r', *a, **k):
        return self._h.fs.open(filename, mode)


class Seams(object):
    """Installs the storage seams once per worker process; `fs` is swapped per run."""

    def __init__(self):
        self.fs = None
        self.installed = False

    def install(self):
        if self.installed:
            return
        import fixed_format_file, t2data, t2listing
        import os.path as osp
        holder = self

        def sim_open(filename, mode='r', *a, **k):
            if holder.fs is None:
                raise HarnessError('no SimFS bound')
            return holder.fs.open(filename, mode, *a, **k)
        import mulgrids, t2incons, t2grids
        for mod in (fixed_format_file, t2data, t2listing, mulgrids, t2incons, t2grids):
            mod.open = sim_open          # shadows the builtin for code defined in that module
        t2listing.io = _IOShim(holder)

        def route(real, sim):
            def fn(path, *a, **k):
                if isinstance(path, str) and path.startswith(ROOT):
                    return sim(path, *a, **k)
                return real(path, *a, **k)
            return fn
        osp.exists = route(osp.exists, lambda p: holder.fs.exists(p))
        osp.isfile = route(osp.isfile, lambda p: holder.fs.exists(p))
        osp.isdir = route(osp.isdir, lambda p: p.rstrip('/') + '/' == ROOT)
        osp.getsize = route(osp.getsize, lambda p: len(holder.fs.files[holder.fs._name(p)]))

        def sim_remove(p):
            name = holder.fs._name(p)
            if name not in holder.fs.files:
                raise FileNotFoundError(errno.ENOENT, os.strerror(errno.ENOENT), p)
            del holder.fs.files[name]
        os.remove = route(os.remove, sim_remove)
        os.unlink = route(os.unlink, sim_remove)

        def sim_rename(p, q):
            fs = holder.fs
            fs.replace(fs._name(q), fs.files.pop(fs._name(p)))
        os.rename = route(os.rename, sim_rename)
        os.replace = route(os.replace, sim_rename)
        self.installed = True


SEAMS = Seams()


# -------------------------------------------------------------------------------------------
# RealFS: the same interface on a real temporary directory (self-test of the stub: fault-free
# runs must produce the same event digests on SimFS and on the real file system)

class _RealFiles(object):
    """dict-like view of the files of a directory tree (names relative to the root)."""

    def __init__(self, root):
        self.root = root

    def _p(self, name):
        return os.path.join(self.root, name)

    def get(self, name, default=None):
        try:
            with open(self._p(name), 'rb') as f:
                return f.read()
        except (FileNotFoundError, IsADirectoryError):
            return default

    def __getitem__(self, name):
        v = self.get(name)
        if v is None:
            raise KeyError(name)
        return v

    def __contains__(self, name):
        return os.path.isfile(self._p(name))

    def __setitem__(self, name, data):
        os.makedirs(os.path.dirname(self._p(name)) or self.root, exist_ok=True)
        with open(self._p(name), 'wb') as f:
            f.write(data)

    def pop(self, name, default=None):
        v = self.get(name, default)
        try:
            os.remove(self._p(name))
        except FileNotFoundError:
            pass
        return v

    def __delitem__(self, name):
        os.remove(self._p(name))

    def _all(self):
        out = []
        for d, _, fs in os.walk(self.root):
            for f in fs:
                out.append(os.path.relpath(os.path.join(d, f), self.root))
        return sorted(out)

    def __iter__(self):
        return iter(self._all())

    def items(self):
        return [(n, self.get(n)) for n in self._all()]

    def keys(self):
        return self._all()


class RealFS(SimFS):
    """Real files under a temporary directory; no faults, no buffering model, no step budget."""

    def __init__(self, root):
        SimFS.__init__(self, bufsize=None)
        self.files = _RealFiles(root)
        self.root = root
        import builtins
        self._open = builtins.open

    def open(self, filename, mode='r', *args, **kwargs):
        name = self._name(filename)
        self.step += 1
        path = os.path.join(self.root, name)
        if 'w' in mode:
            os.makedirs(os.path.dirname(path) or self.root, exist_ok=True)
        return self._open(path, mode, *args, **kwargs)

    def crash(self):
        self.crashed = True

    def arm(self, kind, index, frac=0.5):
        raise HarnessError('RealFS runs are fault free')

    def replace(self, name, data):
        tmp = os.path.join(self.root, name + '.tmp-replace')
        with self._open(tmp, 'wb') as f:
            f.write(data)
        os.replace(tmp, os.path.join(self.root, name))
