"""Property -> machine registry and per-tier run counts."""
import importlib

# prop: (module, class, block size, quick runs, thorough runs)
REGISTRY = {
    'C08': ('sim.machines.edit_grid', 'GridMachine', 64, 8000, 150000),
    'C09': ('sim.machines.edit_grid', 'GridPhysicsMachine', 64, 6000, 100000),
    'C10': ('sim.machines.edit_geo', 'GeoMachine', 64, 5000, 60000),
    'C13': ('sim.machines.store_incon', 'InconMachine', 128, 12000, 200000),
}


def machine_for(prop):
    mod, cls = REGISTRY[prop][:2]
    return getattr(importlib.import_module(mod), cls)
