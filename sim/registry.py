"""Property -> machine registry and per-tier run counts."""
import importlib

# prop: (module, class, block size, quick runs, thorough runs)
REGISTRY = {
    'C01': ('sim.machines.store_data', 'DataStoreMachine', 64, 4000, 500000),
    'C03': ('sim.machines.store_geo', 'GeoStoreMachine', 64, 4000, 300000),
    'C05': ('sim.machines.listing', 'TableMachine', 32, 1500, 60000),
    'C06': ('sim.machines.listing', 'HistoryMachine', 64, 4000, 200000),
    'C07': ('sim.machines.listing', 'NavMachine', 64, 2000, 100000),
    'C08': ('sim.machines.edit_grid', 'GridMachine', 64, 8000, 300000),
    'C09': ('sim.machines.edit_grid', 'GridPhysicsMachine', 64, 6000, 300000),
    'C10': ('sim.machines.edit_geo', 'GeoMachine', 64, 2400, 80000),
    'C13': ('sim.machines.store_incon', 'InconMachine', 128, 12000, 600000),
}


def machine_for(prop):
    mod, cls = REGISTRY[prop][:2]
    return getattr(importlib.import_module(mod), cls)
