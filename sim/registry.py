"""Property -> machine registry and per-tier run counts."""
import importlib

# prop: (module, class, block size, quick runs, thorough runs)
REGISTRY = {
    'C13': ('sim.machines.store_incon', 'InconMachine', 128, 12000, 200000),
}


def machine_for(prop):
    mod, cls = REGISTRY[prop][:2]
    return getattr(importlib.import_module(mod), cls)
